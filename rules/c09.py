"""C09 — subscribers: Initialised once, Changed on real change, one Invalidated (structural clauses)."""
from . import q, dtab
from .callgraph import reachable, edges
from .cfg import DefUse, origins
from .colls import coll_ops
from .effects import writes_of, accesses_of
from .expr import expr, show, mentions
from .facts import op_const_int
from .usercalls import user_calls

EXPLANATION = (
    "Decided clause of C09: (DTAB-node-update) Node::node_update classifies invalid / unnecessary first and "
    "reports Changed only under a test that depends on the node's changed_at stamp (having a value is not "
    "enough); (DTAB-run) the per-handler transition table of OnUpdateHandler::run, the stored "
    "previous_update_kind, and the NodeUpdate -> Update mapping of subscriptions are the specified ones, "
    "extracted for every (guard, previous, update) combination; (WMC) user update handlers are invoked only "
    "from stabilise_end, after the recompute loop and after status = RunningOnUpdateHandlers; (GUARD-inuse) "
    "run_all re-reads the observer state inside the handler loop; (SIGN-unsub) unsubscribe removes the "
    "handler, disallow_future_use clears handlers (Created) or queues the unlink (InUse).")
NOT_DECIDED = "The exact notification sequence per subscription over all histories; delivered value equality."
ASSUMPTIONS = ["specification table B.2 of DESIGN.md (written from the property text and the OCaml original)"]

PREV = "incremental::node_update::Previously"
UPD = "incremental::node_update::NodeUpdateDelayed"


def dtab_node_update(ctx, prog):
    R = "C09.DTAB-node-update"
    ctx.rule(R, "node_update: invalid -> Invalidated; unnecessary -> Unnecessary; Changed only under a test on "
                "changed_at (changed in the stabilise that is ending); otherwise Necessary")
    F = ctx.need_fn(R, q.NODE_IMPL + "node_update")
    if F is None:
        return
    du = DefUse(F)
    c = F.cfg()
    rets = {}
    for s in F.stmts():
        if s.dst is not None and s.dst.is_local() and s.dst.local == 0 and s.rv and "agg" in s.rv and \
                isinstance(s.rv["agg"], dict):
            rets.setdefault(s.rv["agg"]["variant"], []).append(s)
            ctx.site(R, F, "bb%d returns %s" % (s.bb, s.rv["agg"]["variant"]))
    for v in ("Invalidated", "Unnecessary", "Changed", "Necessary"):
        if v not in rets:
            ctx.fail(R, "ret:" + v, "node_update never returns %s" % v, fn=F, kind="anchor")
            return

    def controlling(bb):
        out = []
        for s, can in c.controlling_switches(bb):
            e = expr(F, F.blocks[s]["term"]["on"], du)
            vals = sorted({str(v) for x in can for v in c.edge_values(s, x)})
            out.append((s, e, vals))
        return out

    # Invalidated <- is_valid == 0 ; Unnecessary <- is_valid != 0, is_necessary == 0
    def has(ctrl, callee, val):
        for s, e, vals in ctrl:
            if mentions(e, lambda x: x[0] == "call" and x[1].endswith(callee)):
                neg = e[0] == "un"
                want = ["0"] if (val == 0) != neg else None
                if val == 0 and not neg and vals == ["0"]:
                    return True
                if val == 1 and not neg and "0" not in vals and vals:
                    return True
                if neg and val == 0 and "0" not in vals and vals:
                    return True
                if neg and val == 1 and vals == ["0"]:
                    return True
        return False

    ci = controlling(rets["Invalidated"][0].bb)
    cu = controlling(rets["Unnecessary"][0].bb)
    cc = controlling(rets["Changed"][0].bb)
    if has(ci, "::is_valid", 0):
        ctx.ok(R, "row:Invalidated")
    else:
        ctx.fail(R, "row:Invalidated", "Invalidated is not returned exactly when !is_valid()", fn=F)
    if has(cu, "::is_valid", 1) and has(cu, "::is_necessary", 0):
        ctx.ok(R, "row:Unnecessary")
    else:
        ctx.fail(R, "row:Unnecessary", "Unnecessary is not returned exactly when valid and !is_necessary()", fn=F)
    from .expr import field_deps
    dep = [e for s, e, vals in cc if "changed_at" in field_deps(prog, F, e)]
    if has(cc, "::is_valid", 1) and has(cc, "::is_necessary", 1) and dep:
        ctx.ok(R, "row:Changed", show(dep[0])[:80])
    else:
        ctx.fail(R, "row:Changed", "node_update returns Changed whenever the node has a value; nothing on that "
                 "path depends on changed_at, so a node handled after stabilisation for another reason (a second "
                 "observer, a new subscription) reports Changed for an unchanged value (controls: %s)"
                 % [show(e)[:40] for _, e, _ in cc], fn=F, span=rets["Changed"][0].span)


SPEC_RUN = {}
for _p in ("NeverBeenUpdated", "Necessary", "Changed", "Invalidated", "Unnecessary"):
    for _u in ("Necessary", "Changed", "Invalidated", "Unnecessary"):
        if _p == "Invalidated":
            act = None
        elif (_p, _u) in (("Changed", "Necessary"), ("Necessary", "Necessary"), ("Unnecessary", "Unnecessary")):
            act = None
        elif _p in ("NeverBeenUpdated", "Unnecessary") and _u == "Changed":
            act = "Necessary"
        else:
            act = _u
        SPEC_RUN[(_p, _u)] = act


def dtab_run(ctx, prog):
    R = "C09.DTAB-run"
    ctx.rule(R, "OnUpdateHandler::run implements the transition table B.2 for every (created_at < now, previous, "
                "update); really_run_downcast stores the delivered kind and passes the matching NodeUpdate; "
                "subscriptions map Necessary->Initialised, Changed->Changed, Invalidated->Invalidated")
    F = ctx.need_fn(R, "<incremental::node_update::OnUpdateHandler<T> as incremental::node_update::HandleUpdate>::run")
    if F is not None:
        syms = [dtab.Sym("guard", lambda e: e[0] == "call" and e[1].endswith("::lt") and mentions(
                    e, lambda x: x[0] == "field" and x[2][-1] == "created_at"), {0: "late", 1: "early"}, "bool"),
                dtab.Sym("prev", dtab.is_field_get("previous_update_kind"), dtab.enum_domain(prog, PREV)),
                dtab.Sym("upd", lambda e: e == ("arg", 3), dtab.enum_domain(prog, UPD))]
        du0 = DefUse(F)

        def desc(F_, t, du):
            e = expr(F_, t.args[2], du)
            if e == ("arg", 3):
                return "as-is"
            if e[0] == "agg":
                return e[1].rsplit("::", 1)[-1]
            return show(e)
        acts = [dtab.Action("run", lambda t: q.callee_is(t, "really_run_downcast"), desc)]
        tb = dtab.table(F, syms, acts, record_returns=False)
        # the guard must be consulted
        guard_used = any(dtab._switch_symbol(F, b["id"], syms[:1], du0, {}) for b in F.blocks
                         if b["term"]["k"] == "switch")
        if not guard_used:
            ctx.fail(R, "guard", "run no longer tests created_at < now: a handler added by another handler in "
                     "this stabilise runs immediately", fn=F)
        n = 0
        for (g, pv, ud), res in sorted(tb.items()):
            n += 1
            got = sorted({tuple(a for a in r if a[0] == "run") for r in res})
            ctx.site(R, F, "(%s,%s,%s) -> %s" % (g, pv, ud, got))
            want = SPEC_RUN[(pv, ud)] if g == "early" else None
            if want is None:
                exp = [()]
            else:
                exp = [(("run", "as-is" if want == ud else want),)]
            # "as-is" with ud == want is the same as naming the variant explicitly
            norm = [tuple(("run", ud if a[1] == "as-is" else a[1]) for a in r) for r in got]
            expn = [tuple(("run", ud if a[1] == "as-is" else a[1]) for a in r) for r in exp]
            if sorted(norm) != sorted(expn):
                ctx.fail(R, "cell:%s/%s/%s" % (g, pv, ud), "transition table differs: handler %s, specified %s"
                         % (norm, expn), fn=F)
            else:
                ctx.ok(R, "cell:%s/%s/%s" % (g, pv, ud))
        ctx.floor(R, n, 40)
    G = ctx.need_fn(R, "incremental::node_update::OnUpdateHandler::<T>::really_run_downcast")
    if G is not None:
        du = DefUse(G)
        syms = [dtab.Sym("upd", lambda e: e == ("arg", 3), dtab.enum_domain(prog, UPD))]

        def d_set(F_, t, du_):
            return show(expr(F_, t.args[1], du_))

        def d_user(F_, t, du_):
            e = expr(F_, t.args[1], du_)
            # tuple(NodeUpdate::X(..))
            for x in __import__("rules.expr", fromlist=["walk"]).walk(e):
                if x[0] == "agg" and x[1].startswith("NodeUpdate::"):
                    return x[1].split("::")[1]
            return show(e)[:40]
        acts = [dtab.Action("store", lambda t: q.callee_is(t, "core::cell::Cell::set") and any(
                    f.endswith("previous_update_kind") for f in
                    __import__("rules.effects", fromlist=["x"]).resolve_fields(prog, G, t.arg_place(0))), None),
                dtab.Action("user", lambda t: any(u.site is t or (u.site.bb == t.bb and u.site.fn is t.fn)
                                                 for u in user_calls(prog) if u.role == "update_handler"), d_user)]
        tb = dtab.table(G, syms, acts, record_returns=False)
        # value stored: find the per-variant constant assigned to the temp that feeds Cell::set
        stores = [t for t in G.calls() if q.callee_is(t, "core::cell::Cell::set")]
        stored = {}
        if stores:
            p = stores[0].arg_place(1)
            for kind, site in du.defs.get(p.local, []):
                if kind == "assign" and "agg" in (site.rv or {}) and isinstance(site.rv["agg"], dict):
                    # which arm? controlling switch on discr(arg3)
                    for s, can in G.cfg().controlling_switches(site.bb):
                        e = expr(G, G.blocks[s]["term"]["on"], du)
                        if e == ("discr", ("arg", 3)):
                            for x in can:
                                for v in G.cfg().edge_values(s, x):
                                    stored[prog.variant_by_discr(UPD, v)] = site.rv["agg"]["variant"]
        built = {}
        for st in G.stmts():
            if st.rv and "agg" in st.rv and isinstance(st.rv["agg"], dict) and \
                    st.rv["agg"].get("adt", "").endswith("node_update::NodeUpdate"):
                for sw, can in G.cfg().controlling_switches(st.bb):
                    if expr(G, G.blocks[sw]["term"]["on"], du) == ("discr", ("arg", 3)):
                        for x in can:
                            for v in G.cfg().edge_values(sw, x):
                                built.setdefault(prog.variant_by_discr(UPD, v), set()).add(st.rv["agg"]["variant"])
        for (ud,), res in sorted(tb.items()):
            ncalls = {sum(1 for a in r if a[0] == "user") for r in res if ("diverge",) not in r}
            nstore = {sum(1 for a in r if a[0] == "store") for r in res if ("diverge",) not in r}
            ctx.site(R, G, "%s -> stores %s, builds NodeUpdate::%s, handler calls %s" % (
                ud, stored.get(ud), sorted(built.get(ud, ())), sorted(ncalls)))
            if built.get(ud) != {ud} or stored.get(ud) != ud or nstore != {1} or ncalls != {1}:
                ctx.fail(R, "deliver:" + ud, "really_run_downcast(%s) stores %s, builds NodeUpdate::%s and calls "
                         "the handler %s time(s)" % (ud, stored.get(ud), sorted(built.get(ud, ())), sorted(ncalls)), fn=G)
            else:
                ctx.ok(R, "deliver:" + ud)
    H = ctx.need_fn(R, "incremental::public::Observer::<T>::try_subscribe::{closure#0}")
    if H is not None:
        du = DefUse(H)
        NU = "incremental::node_update::NodeUpdate"
        syms = [dtab.Sym("nu", lambda e: e == ("arg", 2), dtab.enum_domain(prog, NU))]

        def d_user(F_, t, du_):
            e = expr(F_, t.args[1], du_)
            for x in __import__("rules.expr", fromlist=["walk"]).walk(e):
                if x[0] == "agg" and x[1].startswith("Update::"):
                    return x[1].split("::")[1]
            return show(e)[:60]
        acts = [dtab.Action("user", lambda t: q.callee_is(t, "FnMut::call_mut"), d_user)]
        tb = dtab.table(H, syms, acts, record_returns=False)
        # which Update variant is built per arm
        built = {}
        for s in H.stmts():
            if s.rv and "agg" in s.rv and isinstance(s.rv["agg"], dict) and s.rv["agg"].get("adt", "").endswith("public::Update"):
                for sw, can in H.cfg().controlling_switches(s.bb):
                    if expr(H, H.blocks[sw]["term"]["on"], du) == ("discr", ("arg", 2)):
                        for x in can:
                            for v in H.cfg().edge_values(sw, x):
                                built[prog.variant_by_discr(NU, v)] = s.rv["agg"]["variant"]
        want = {"Necessary": "Initialised", "Changed": "Changed", "Invalidated": "Invalidated"}
        for (nu,), res in sorted(tb.items()):
            ctx.site(R, H, "%s -> %s" % (nu, built.get(nu)))
            called = any(a[0] == "user" for r in res for a in r)
            if nu == "Unnecessary":
                if called:
                    ctx.fail(R, "map:Unnecessary", "a subscription is called for NodeUpdate::Unnecessary", fn=H)
                else:
                    ctx.ok(R, "map:Unnecessary")
            elif built.get(nu) != want[nu] or not called:
                ctx.fail(R, "map:" + nu, "NodeUpdate::%s is delivered as Update::%s, specified %s"
                         % (nu, built.get(nu), want[nu]), fn=H)
            else:
                ctx.ok(R, "map:" + nu)


def wmc_handlers(ctx, prog):
    R = "C09.WMC-handlers"
    ctx.rule(R, "update handlers are called only via really_run_downcast <- run <- {Node::run_on_update_handlers, "
                "run_all} <- stabilise_end; stabilise_end follows the recompute loop; status is set to "
                "RunningOnUpdateHandlers before the handler loop")
    ucs = [u for u in user_calls(prog) if u.role == "update_handler"]
    RRD = "incremental::node_update::OnUpdateHandler::<T>::really_run_downcast"
    for u in ucs:
        ctx.site(R, u.site.fn, "bb%d handler_fn call" % u.site.bb)
        if u.site.fn.path != RRD:
            ctx.fail(R, "site:" + u.site.fn.short, "handler_fn called outside really_run_downcast", fn=u.site.fn,
                     span=u.site.span)
    ctx.floor(R, len(ucs), 3)
    chain = [
        (RRD, {"<incremental::node_update::OnUpdateHandler<T> as incremental::node_update::HandleUpdate>::run"}),
        ("<incremental::node_update::OnUpdateHandler<T> as incremental::node_update::HandleUpdate>::run",
         {q.NODE_IMPL + "run_on_update_handlers", q.OBS_IMPL + "run_all"}),
        (q.OBS_IMPL + "run_all", {q.NODE_IMPL + "run_on_update_handlers"}),
        (q.NODE_IMPL + "run_on_update_handlers", {q.STATE + "stabilise_end"}),
        (q.STATE + "stabilise_end", {q.STATE + "stabilise_debug"}),
    ]
    for callee, allowed in chain:
        F = ctx.need_fn(R, callee)
        if F is None:
            continue
        cs = prog.callers(F)
        if not cs:
            ctx.missing(R, "callers of " + callee)
        for t in cs:
            ctx.site(R, t.fn, "bb%d call %s" % (t.bb, F.short))
            if t.fn.root not in allowed:
                ctx.fail(R, "caller:%s<-%s" % (F.name, t.fn.short), "%s called from outside the handler phase"
                         % F.short, fn=t.fn, span=t.span)
            else:
                ctx.ok(R, "caller:%s<-%s" % (F.name, t.fn.short))
    # order inside stabilise_debug's closure: remove_min loop, then stabilise_end
    SD = prog.fn(q.STATE + "stabilise_debug")
    if SD is not None:
        for G in prog.with_closures(SD):
            se = q.calls_in(G, "State::stabilise_end")
            rm = q.calls_in(G, "RecomputeHeap::remove_min")
            if not se:
                continue
            c = G.cfg()
            ctx.site(R, G, "remove_min %s, stabilise_end %s" % ([t.bb for t in rm], [t.bb for t in se]))
            if not rm or not all(c.dominates(rm[0].bb, t.bb) for t in se) or se[0].bb in c.reach({se[0].bb}) - {se[0].bb} and False:
                ctx.fail(R, "order:loop", "stabilise_end is not preceded by the recompute loop", fn=G)
            elif any(c.in_loop(t.bb) for t in se):
                ctx.fail(R, "order:loop", "stabilise_end is called inside the recompute loop", fn=G)
            else:
                ctx.ok(R, "order:loop")
    # inside stabilise_end: status = RunningOnUpdateHandlers before run_on_update_handlers, classification
    # (node_update) before the status store's handler loop
    SE = prog.fn(q.STATE + "stabilise_end")
    if SE is not None:
        order = []
        for G in prog.with_closures(SE):
            for t in G.calls():
                if q.callee_is(t, "ErasedNode>::run_on_update_handlers", "ErasedNode::run_on_update_handlers"):
                    ws = [a for a in writes_of(prog, "incremental::state::State.status") if a.fn.path == G.path]
                    ctx.site(R, G, "bb%d run_on_update_handlers; status stores %s" % (t.bb, [a.bb for a in ws]))
                    good = False
                    for a in ws:
                        e = expr(G, a.site.args[1], DefUse(G))
                        if e[0] == "agg" and e[1] == "IncrStatus::RunningOnUpdateHandlers" and \
                                G.cfg().dominates(a.bb, t.bb) and not G.cfg().in_loop(a.bb):
                            good = True
                    if good:
                        ctx.ok(R, "order:status")
                    else:
                        ctx.fail(R, "order:status", "status is not RunningOnUpdateHandlers before handlers run "
                                 "(observer reads inside a handler would fail)", fn=G, span=t.span)
                    order.append(G)
        if not order:
            ctx.missing(R, "run_on_update_handlers call in stabilise_end")


def guard_inuse(ctx, prog):
    R = "C09.GUARD-inuse"
    ctx.rule(R, "run_all re-reads the observer state before each handler (inside the loop) and runs the handler "
                "only when InUse")
    F = ctx.need_fn(R, q.OBS_IMPL + "run_all")
    if F is None:
        return
    du = DefUse(F)
    c = F.cfg()
    runs = q.calls_in(F, "HandleUpdate::run", "HandleUpdate>::run")
    if not runs:
        ctx.missing(R, "handler.run call in run_all")
        return
    OS = "incremental::internal_observer::ObserverState"
    for t in runs:
        ctx.site(R, F, "bb%d handler.run" % t.bb)
        good = False
        for s, can in c.controlling_switches(t.bb):
            e = expr(F, F.blocks[s]["term"]["on"], du)
            if e[0] == "discr" and dtab.is_field_get("state")(e[1]):
                vals = {prog.variant_by_discr(OS, v) for x in can for v in c.edge_values(s, x) if v != "otherwise"}
                # the state read lies in the same loop as the call
                get_bb = e[1][3] if e[1][0] == "call" and len(e[1]) > 3 else None
                loops = c.loops()
                same_loop = any(t.bb in body and (get_bb in body if get_bb is not None else False)
                                for body in loops.values())
                if vals == {"InUse"} and same_loop:
                    good = True
        if good:
            ctx.ok(R, "inuse")
        else:
            ctx.fail(R, "inuse", "handler.run is not guarded by `state == InUse` evaluated inside the handler loop: a "
                     "handler that disallows its own observer would not stop the remaining handlers", fn=F, span=t.span)


def sign_unsub(ctx, prog):
    R = "C09.SIGN-unsub"
    ctx.rule(R, "unsubscribe removes the token from on_update_handlers (Created|InUse); disallow_future_use "
                "clears handlers (Created) or pushes on disallowed_observers (InUse); unlink removes the observer "
                "from the node")
    OS = "incremental::internal_observer::ObserverState"
    U = ctx.need_fn(R, q.OBS_IMPL + "unsubscribe")
    if U is not None:
        du = DefUse(U)
        ops = [o for o in coll_ops(prog, U) if any(f.endswith("InternalObserver.on_update_handlers") for f in o.fields)]
        for o in ops:
            ctx.site(R, U, "bb%d %s" % (o.bb, o.method))
        rem = [o for o in ops if o.sign == "-"]
        good = False
        for o in rem:
            key = expr(U, o.site.args[1], du)
            for s, can in U.cfg().controlling_switches(o.bb):
                e = expr(U, U.blocks[s]["term"]["on"], du)
                if e[0] == "discr" and dtab.is_field_get("state")(e[1]):
                    vals = {prog.variant_by_discr(OS, v) for x in can for v in U.cfg().edge_values(s, x)}
                    if vals == {"Created", "InUse"} and key == ("arg", 2):
                        good = True
        if good:
            ctx.ok(R, "unsubscribe:remove")
        else:
            ctx.fail(R, "unsubscribe:remove", "unsubscribe does not remove the token's handler in the Created and "
                     "InUse states: the callback keeps running after unsubscribe", fn=U)
    D = ctx.need_fn(R, q.OBS_IMPL + "disallow_future_use")
    if D is not None:
        ops = {id(o.site): o for o in coll_ops(prog, D)}

        def d(F_, t, du_):
            o = ops[id(t)]
            return "%s:%s" % (o.sign, ",".join(sorted(f.rsplit(".", 1)[-1] for f in o.fields)))
        acts = [dtab.Action("coll", lambda t: id(t) in ops, d)]
        tb = dtab.table(D, [dtab.Sym("state", dtab.is_field_get("state"), dtab.enum_domain(prog, OS))], acts,
                        record_returns=False, path_sensitive=True)
        arms = {}
        for (st,), res in sorted(tb.items()):
            arms[st] = sorted({tuple(a[1] for a in r if a[0] == "coll") for r in res})
            ctx.site(R, D, "disallow_future_use(%s) -> %s" % (st, arms[st]))
        want = {"Created": [("clear:on_update_handlers",)], "InUse": [("+:disallowed_observers",)],
                "Disallowed": [()], "Unlinked": [()]}
        if arms == want:
            ctx.ok(R, "disallow:arms")
        else:
            ctx.fail(R, "disallow:arms", "disallow_future_use per state does %s, specified %s (Created: drop the handlers; "
                     "InUse: queue the unlink; otherwise nothing)" % (arms, want), fn=D)
    # unlink_disallowed_observers removes the observer from the node
    UL = ctx.need_fn(R, q.STATE + "unlink_disallowed_observers")
    if UL is not None:
        cs = q.calls_in(UL, "ErasedObserver::remove_from_observed_node")
        ctx.site(R, UL, "remove_from_observed_node %s" % [t.bb for t in cs])
        if cs and all(UL.cfg().in_loop(t.bb) for t in cs):
            ctx.ok(R, "unlink:remove")
        else:
            ctx.fail(R, "unlink:remove", "unlink_disallowed_observers no longer detaches the observer from its node",
                     fn=UL)


def sign_count(ctx, prog):
    # the per-node handler count decides whether a changed node is queued for its handlers at all
    from .c11 import sign_handlers
    from .engine import run_relabelled
    run_relabelled(ctx, prog, sign_handlers, "C11.SIGN-handlers", "C09.SIGN-count")


for _f, _id in ((dtab_node_update, "C09.DTAB-node-update"), (dtab_run, "C09.DTAB-run"),
                (wmc_handlers, "C09.WMC-handlers"), (guard_inuse, "C09.GUARD-inuse"), (sign_unsub, "C09.SIGN-unsub"),
                (sign_count, "C09.SIGN-count")):
    _f.rule_id = _id

def dom_marker_reset(ctx, prog):
    R = "C09.DOM-marker-reset"
    ctx.rule(R, "stabilise_end clears every node's is_in_handle_after_stabilisation marker while draining the queue, "
                "before any handler runs: a handler that subscribes / queues the node again must find the marker clear, "
                "otherwise the request is dropped and the new subscription misses its Initialised")
    F = ctx.need_fn(R, q.STATE + "stabilise_end")
    if F is None:
        return
    fns = prog.with_closures(F)
    resets, runs = [], []
    for G in fns:
        du = DefUse(G)
        for t in G.calls():
            if q.callee_is(t, "core::cell::Cell::set") and t.arg_place(0) is not None:
                recv = expr(G, t.args[0], du)
                if mentions(recv, lambda x: x[0] == "call" and x[1].endswith("is_in_handle_after_stabilisation")):
                    resets.append((G, t))
            if q.callee_is(t, "ErasedNode>::run_on_update_handlers", "ErasedNode::run_on_update_handlers"):
                runs.append((G, t))
    ctx.site(R, F, "marker resets %s; handler runs %s" % ([(g.short, t.bb) for g, t in resets], [(g.short, t.bb) for g, t in runs]))
    if not resets or not runs:
        ctx.missing(R, "marker reset / run_on_update_handlers in stabilise_end")
        return
    bad = None
    for g, t in resets:
        for g2, t2 in runs:
            if g is g2:
                c = g.cfg()
                if t.bb in c.reach({t2.bb}) and t.bb != t2.bb:
                    bad = (g, t, t2)
            # different closures: the reset closure must be created/run before the handler closure in F (drain first)
    if bad is None and resets[0][0] is not runs[0][0]:
        # order of the two phases inside stabilise_end itself: block of the closure aggregate / call
        def phase_bb(G):
            if G is F:
                return None
            for st in F.stmts():
                rv = st.rv or {}
                if "agg" in rv and isinstance(rv["agg"], dict) and rv["agg"].get("closure") == G.path:
                    return st.bb
            return None
        pr, ph = phase_bb(resets[0][0]), phase_bb(runs[0][0])
        if pr is not None and ph is not None and pr != ph and pr in F.cfg().reach({ph}):
            bad = (F, resets[0][1], runs[0][1])
    if bad:
        ctx.fail(R, "reset-before-handlers", "the marker of a handled node is cleared after its handlers have run: a "
                 "subscription made by a handler is not queued for its Initialised notification", fn=bad[0], span=bad[1].span)
    else:
        ctx.ok(R, "reset-before-handlers")


dom_marker_reset.rule_id = "C09.DOM-marker-reset"

def data_identities(ctx, prog):
    """A live subscription keeps its token for itself: tokens come from a monotone per-observer counter
    (C10.DATA-identities, reported here too)."""
    from .c10 import data_identities as f
    f(ctx, prog, "C09.DATA-identities")


data_identities.rule_id = "C09.DATA-identities"

RULES = [dtab_node_update, dtab_run, wmc_handlers, guard_inuse, sign_unsub, sign_count, dom_marker_reset, data_identities]

# control signature of the bookkeeping effects this property depends on (rules/ctrlsig.py)
from .ctrlsig import make_rule as _ctrl_rule  # noqa: E402
RULES.append(_ctrl_rule("C09"))
