//! Positive control for rules whose expected match count on /repo is zero: this snippet DOES contain the
//! forbidden constructs, so the same query run over its facts must match on every run.
use std::cell::Cell;
use std::panic::{catch_unwind, resume_unwind, AssertUnwindSafe};

pub struct Guard<'a>(pub &'a Cell<u8>);
impl Drop for Guard<'_> {
    fn drop(&mut self) {
        // a scope guard that resets a status cell while unwinding
        self.0.set(0);
    }
}

pub fn swallow(status: &Cell<u8>, f: impl FnOnce()) {
    status.set(1);
    let _g = Guard(status);
    let r = catch_unwind(AssertUnwindSafe(f));
    if let Err(e) = r {
        resume_unwind(e);
    }
}
