"""Rule template WEAK: upgrade discipline on weak back-references that may dangle by design."""
from . import q
from .cfg import DefUse, origins
from .effects import _last_local
from .facts import strip_generics

UPGRADES = ("alloc::rc::Weak::upgrade", "incremental::incr::WeakIncr::upgrade",
            "incremental::kind::expert::public::WeakNode::upgrade",
            "incremental::public::WeakState::upgrade", "incremental::public::WeakState::upgrade_inner")
# convenience methods that unwrap an upgrade internally (panic on a dead referent)
PANICKING_WEAK_API = ("incremental::kind::expert::public::WeakNode::make_stale",
                      "incremental::kind::expert::public::WeakNode::invalidate",
                      "incremental::kind::expert::public::WeakNode::add_dependency",
                      "incremental::kind::expert::public::WeakNode::add_dependency_with",
                      "incremental::kind::expert::public::WeakNode::remove_dependency")
COLLECTION_READS = ("alloc::collections::btree::map::BTreeMap::get", "alloc::collections::btree::map::BTreeMap::remove",
                    "im_rc::ord::map::OrdMap::get", "im_rc::ord::map::OrdMap::remove",
                    "std::collections::hash::map::HashMap::get", "std::collections::hash::map::HashMap::remove")

MAY_DANGLE = {
    "kind::bind::BindNode.all_nodes_created_on_rhs": "the user may drop nodes created inside a bind closure",
    "state::State.new_observers": "an observer can be dropped before the queue is drained",
    "state::State.disallowed_observers": "an observer can be released before the queue is drained",
    "state::State.set_during_stabilisation": "the var can be released before stabilise_end",
    "state::State.dead_vars": "the var can be released first",
    "state::State.dead_vars_alt": "the var can be released first",
    "state::State.handle_after_stabilisation": "the node can be released before stabilise_end",
    "state::State.run_on_update_handlers": "the node can be released before the handlers run",
    "state::State.propagate_invalidity": "the node can be released before the stack is drained",
    "node::Node.observers": "entries die when the InternalObserver is dropped",
    "public::WeakHashMap": "memoised nodes are released by the user",
    "state::OnlyInDebug.currently_running_node": "debug-only; the running node may be released later",
}
ALIVE = {
    "node::Node.weak_self": "a Node is only reachable through its own Rc",
    "node::Node.weak_state": "documented misuse: API use after the state was dropped",
    "node::Node.parents": "necessary parents are held by their own parents up to all_observers",
    "scope::Scope::Bind.0": "documented misuse: a node used after its defining bind was dropped",
    "kind::bind::BindNode.lhs_change": "held strongly by Kind::BindMain.lhs_change",
    "kind::bind::BindNode.main": "checked before use (is_valid / is_necessary return false)",
    "var::Var.state": "documented misuse: var used after its state was dropped",
    "internal_observer::InternalObserver.weak_self": "self reference",
    "state::State.weak_self": "self reference",
    "kind::expert::public::Dependency.edge": "documented misuse: dependency token used after removal",
    "public::WeakState.inner": "documented misuse: WeakState used after the state was dropped",
    "incr::WeakIncr.0": "API: caller decides",
    "kind::expert::public::WeakNode.incr": "API: caller decides",
}
# upgrade().unwrap() on a function parameter / captured variable (no field): function suffix -> reason
ALIVE_PARAMS = {
    ("kind::expert::public::WeakNode::<T>::make_stale", "arg1"): "WeakNode API: documented to panic on a dead node",
    ("kind::expert::public::WeakNode::<T>::invalidate", "arg1"): "WeakNode API",
    ("kind::expert::public::WeakNode::<T>::add_dependency", "arg1"): "WeakNode API",
    ("kind::expert::public::WeakNode::<T>::add_dependency_with", "arg1"): "WeakNode API",
    ("kind::expert::public::WeakNode::<T>::remove_dependency", "arg1"): "WeakNode API",
}


# functions whose result is a weak handle of an object the caller holds strongly for the duration of the call
FRESH_WEAK = ("alloc::rc::Rc::downgrade", "incremental::state::State::weak", "incremental::node::Node::weak",
              "incremental::incr::Incr::weak", "incremental::public::IncrState::weak")


def param_alive(prog, F, argno, seen=None, depth=0):
    """Interprocedural: parameter `argno` (1-based MIR local) of F is a weak handle whose referent is alive on
    entry if at EVERY call site the argument is a fresh downgrade of something the caller holds, a field of the
    alive-by-invariant table, or a parameter of the caller with the same property. Returns (bool, reason)."""
    seen = seen or set()
    key = (F.path, argno)
    if key in seen or depth > 5:
        return True, "recursive"
    seen = seen | {key}
    callers = prog.callers(F)
    if not callers:
        return False, "no caller found for %s" % F.short
    for t in callers:
        C = t.fn
        pl = t.arg_place(argno - 1)
        if pl is None:
            return False, "constant argument in %s" % C.short
        du = DefUse(C)
        for o in origins(C, pl, du):
            if o.kind == "via":
                continue
            if o.kind == "call" and strip_generics(str(o.what)) in FRESH_WEAK:
                continue
            lf = _last_local(o.fields) if o.fields else None
            if lf and any(lf.endswith(k) for k in ALIVE):
                continue
            if o.kind == "arg" and not C.is_closure:
                ok, why = param_alive(prog, C, int(o.what), seen, depth + 1)
                if ok:
                    continue
                return False, why
            return False, "%s passes a weak value of origin %s/%s" % (C.short, o.kind, str(o.what)[:40])
    return True, "every caller passes a fresh or alive-by-invariant weak handle"


def _classify_fields(fields):
    md = [f for f in fields for k in MAY_DANGLE if f.endswith(k)]
    al = [f for f in fields for k in ALIVE if f.endswith(k)]
    unk = [f for f in fields if f not in md and f not in al]
    return md, al, unk


def unwrap_sites(prog, crate):
    """(unwrap/expect call, upgrade call it consumes) pairs in `crate`."""
    out = []
    for F in prog.fns.values():
        if F.crate != crate:
            continue
        du = None
        for t in F.calls():
            if not q.callee_is(t, "core::option::Option::unwrap", "core::option::Option::expect"):
                continue
            du = du or DefUse(F)
            os_ = origins(F, t.arg_place(0), du)
            ups = [o for o in os_ if o.kind in ("via", "call") and strip_generics(str(o.what)) in UPGRADES]
            for u in ups:
                out.append((t, u.site, du))
    return out


def source_of(F, upgrade_call, du):
    """Origins of the receiver of an upgrade call, looking through collection iteration/reads."""
    return origins(F, upgrade_call.arg_place(0), du)


def check_weak(ctx, prog, R, crate="incremental", floor=None):
    n = 0
    for t, up, du in unwrap_sites(prog, crate):
        F = t.fn
        n += 1
        src = source_of(F, up, du)
        fields = sorted({_last_local(o.fields) for o in src if _last_local(o.fields)})
        ctx.site(R, F, "bb%d unwrap(upgrade(%s))" % (t.bb, ",".join(f.rsplit("::", 1)[-1] for f in fields) or "?"))
        md, al, unk = _classify_fields(fields)
        inst = "unwrap:%s" % (",".join(f.rsplit("::", 1)[-1] for f in fields) or "param")
        if not md and not unk and strip_generics(up.callee or "").startswith("incremental::public::WeakState::upgrade"):
            ctx.ok(R, inst + ":WeakState", "documented misuse: WeakState used after the state was dropped")
            continue
        if md:
            ctx.fail(R, inst, "upgrade() of a weak reference taken from %s is unwrapped; entries of that "
                     "collection may be dead by design (%s)" % (md[0], [v for k, v in MAY_DANGLE.items() if md[0].endswith(k)][0]),
                     fn=F, span=t.span)
        elif unk:
            ctx.fail(R, inst, "upgrade().unwrap() on weak field %s which is in neither the may-dangle nor the "
                     "alive-by-invariant table" % unk[0], fn=F, span=t.span, kind="anchor")
        elif al:
            ctx.ok(R, inst, "alive by invariant: " + al[0])
        else:
            roots = sorted({("arg%s" % o.what) if o.kind == "arg" else ("upvar" if o.kind == "upvar" else o.kind)
                            for o in src if o.kind != "via"})
            via_coll = [o for o in src if o.kind == "via" and strip_generics(str(o.what)) in COLLECTION_READS]
            key = None
            for (suf, r), why in ALIVE_PARAMS.items():
                if strip_generics(F.path).endswith(strip_generics(suf)) and r in roots:
                    key = (suf, r)
            derived = None
            if not via_coll and not key and roots and all(r.startswith("arg") for r in roots) and not F.is_closure:
                res = [param_alive(prog, F, int(r[3:])) for r in roots]
                if all(ok for ok, _ in res):
                    derived = res[0][1]
            if via_coll:
                ctx.fail(R, inst + ":elem", "a weakly held collection element is upgraded and unwrapped", fn=F,
                         span=t.span)
            elif key:
                ctx.ok(R, inst, ALIVE_PARAMS[key])
            elif derived:
                ctx.ok(R, inst, derived)
            else:
                ctx.fail(R, "%s:%s" % (inst, "/".join(roots)), "upgrade().unwrap() on a weak value of unknown origin (%s)" % roots,
                         fn=F, span=t.span, kind="anchor")
    if floor is not None:
        ctx.floor(R, n, floor)
    return n


def weak_fields_classified(ctx, prog, R):
    """Fail closed on a Weak-typed field that is in neither table."""
    n = 0

    def has_weak(tree):
        if not isinstance(tree, dict):
            return False
        if tree.get("k") == "adt" and tree.get("path") in ("alloc::rc::Weak",):
            return True
        return any(has_weak(a) for a in tree.get("args", []))

    for path, a in prog.adts.items():
        if not path.startswith("incremental::"):
            continue
        for v in a["variants"]:
            for f in v["fields"]:
                if not has_weak(f["tree"]):
                    continue
                n += 1
                full = "%s%s.%s" % (path, ("::" + v["name"]) if a["kind"] == "Enum" else "", f["name"])
                ctx.site(R, path, "field " + full)
                md, al, unk = _classify_fields([full])
                if unk:
                    ctx.fail(R, "field:" + full, "Weak-typed field %s is not classified as may-dangle or "
                             "alive-by-invariant" % full, fn=None, span=a.get("span"), kind="anchor")
                else:
                    ctx.ok(R, "field:" + full)
    return n
