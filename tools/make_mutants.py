#!/usr/bin/env python3
"""Generate mutants/*.patch from the textual edits listed in MUTANTS (applied to /repo's HEAD sources in
a scratch copy) plus the reverse patch of every `fix:` commit. Each mutant names the property and rule
expected to report it. Usage: tools/make_mutants.py [--verify]  (--verify: cargo check each mutant)."""
import json
import os
import shutil
import subprocess
import sys
import tempfile

HERE = os.path.dirname(os.path.dirname(os.path.abspath(__file__)))
REPO = "/repo"
OUT = os.path.join(HERE, "mutants")

N = "src/node.rs"
# (name, property, expected rule, file, old, new)
MUTANTS = [
    ("c01-is-stale-var-ge", "C01", "C01.DTAB-staleness", N,
     "                set_at > recomputed_at\n",
     "                set_at >= recomputed_at\n"),
    ("c06-is-stale-expert-no-force", "C06", "C06.DTAB-staleness", N,
     "                e.force_stale.get()\n                    || self.recomputed_at.get().is_never()",
     "                self.recomputed_at.get().is_never()"),
    ("c05-is-necessary-no-force", "C05", "C05.DTAB-necessity", N,
     "            // || kind is freeze\n            || self.force_necessary.get()\n",
     "            // || kind is freeze\n"),
    ("c11-skip-first-parent", "C11", "C11.WMC-truncating", N,
     "            for (parent_index, parent) in parents_iter {\n",
     "            for (parent_index, parent) in parents_iter.skip(0) {\n"),
    # ---- C01
    ("c01-drop-map4-four", "C01", "C01.SIB-children", N,
     "                ret = f(ret, 3, four.clone().packed())?;\n            }\n            Kind::Map5",
     "            }\n            Kind::Map5"),
    ("c01-became-necessary-no-insert", "C01", "C01.PDOM-sched", N,
     "        if self.is_stale() {\n            state.recompute_heap.insert(self.packed());\n        }\n        match self.kind() {",
     "        match self.kind() {"),
    ("c01-state-add-parent-no-insert", "C01", "C01.PDOM-sched", N,
     "        {\n            state.recompute_heap.insert(parent.packed());\n        }\n    }\n\n    #[rustfmt::skip]\n    fn remove_parent",
     "        {\n        }\n    }\n\n    #[rustfmt::skip]\n    fn remove_parent"),
    ("c01-expert-invalid-no-propagate", "C01", "C01.PDOM-sched", N,
     "                Err(Invalid) => {\n                    self.invalidate_node(state);\n                    state.propagate_invalidity();",
     "                Err(Invalid) => {\n                    self.invalidate_node(state);"),
    ("c01-var-set-no-insert", "C01", "C01.PDOM-sched", "src/var.rs",
     "                t.recompute_heap.insert(watch.packed());\n", ""),
    ("c01-stamp-after-compute", "C01", "C01.DOM-stamp", N,
     "        state.num_nodes_recomputed.increment();\n        self.recomputed_at.set(state.stabilisation_num.get());\n",
     "        state.num_nodes_recomputed.increment();\n"),
    ("c01-mapref-no-resync", "C01", "C01.LATCH-mapref", N,
     "            Some(Kind::MapRef(mapref)) => mapref.did_change.set(true),\n", ""),
    ("c01-mapref-overwrite", "C01", "C01.LATCH-mapref", N,
     "                if did_change {\n                    mapref.did_change.set(true);\n                }",
     "                mapref.did_change.set(did_change);"),
    ("c01-skip-later-parents", "C01", "C01.PDOM-sched", N,
     "                if !p.is_in_recompute_heap() {\n                    tracing::debug!(\n                        \"inserting parent into recompute heap at height {:?}\",\n                        p.height()\n                    );\n                    state.recompute_heap.insert(p.packed());\n                }",
     "                if !p.is_in_recompute_heap() && parent_index < 2 {\n                    state.recompute_heap.insert(p.packed());\n                }"),
    # ---- C02
    ("c02-no-lower-bound-update", "C02", "C02.WMC-link", "src/recompute_heap.rs",
     "        if node.height() < self.height_lower_bound.get() {\n            self.height_lower_bound.set(node.height());\n        }\n", ""),
    ("c02-no-adjust-heights", "C02", "C02.PDOM-height", N,
     "            ah_heap.adjust_heights(rch, self.packed(), parent.packed());\n", "            let _ = (&mut ah_heap, rch);\n"),
    ("c02-bypass-bindmain", "C02", "C02.GUARD-bypass", N,
     "        if (can_recompute_now && child.height() <= min_height) || parent.height() <= min_height {",
     "        if (can_recompute_now && (child.height() <= min_height || matches!(parent_kind, Kind::BindMain { .. }))) || parent.height() <= min_height {"),
    ("c02-no-relink", "C02", "C02.PDOM-height", "src/adjust_heights_heap.rs",
     "            if child.is_in_recompute_heap() {\n                rch.increase_height(&child);\n            }\n", "            let _ = rch;\n"),
    # ---- C03
    ("c03-map-cyclic-no-add-node", "C03", "C03.PDOM-register", "src/incr.rs",
     "        node.created_in.add_node(node.clone());\n\n        Incr { node }", "        Incr { node }"),
    ("c03-mapref-top-scope", "C03", "C03.DATA-scope", "src/incr.rs",
     "            state.weak(),\n            state.current_scope(),\n            Kind::MapRef(", "            state.weak(),\n            Scope::Top,\n            Kind::MapRef("),
    ("c03-take-after-closure", "C03", "C03.DOM-lhs-change", N,
     "                let mut old_all_nodes_created_on_rhs = bind.all_nodes_created_on_rhs.take();\n                let lhs = bind.lhs.value_as_any().unwrap();\n                let rhs = {\n                    let old_scope = state.current_scope();\n                    *state.current_scope.borrow_mut() = bind.rhs_scope.borrow().clone();\n                    let mut f = bind.mapper.borrow_mut();\n                    let rhs = f(&*lhs);\n",
     "                let lhs = bind.lhs.value_as_any().unwrap();\n                let mut old_all_nodes_created_on_rhs;\n                let rhs = {\n                    let old_scope = state.current_scope();\n                    *state.current_scope.borrow_mut() = bind.rhs_scope.borrow().clone();\n                    let mut f = bind.mapper.borrow_mut();\n                    let rhs = f(&*lhs);\n                    old_all_nodes_created_on_rhs = bind.all_nodes_created_on_rhs.take();\n"),
    ("c03-no-invalidate-rhs", "C03", "C03.DOM-lhs-change", N,
     "                        invalidate_nodes_created_on_rhs(&mut old_all_nodes_created_on_rhs, state)\n",
     "                        old_all_nodes_created_on_rhs.clear()\n"),
    ("c03-bindmain-never-invalid", "C03", "C03.DTAB-invalid", N,
     "            Kind::BindMain { lhs_change, .. } => !lhs_change.is_valid(),", "            Kind::BindMain { .. } => false,"),
    ("c03-no-scope-restore", "C03", "C03.DOM-lhs-change", N,
     "                    *state.current_scope.borrow_mut() = old_scope;\n", "                    let _ = old_scope;\n"),
    # ---- C04
    ("c04-unwrap-rhs-nodes", "C04", "C04.WEAK", N,
     "    for node in all_nodes_created_on_rhs.drain(..) {\n        if let Some(node) = node.upgrade() {\n            node.invalidate_node(state);\n        }\n    }",
     "    for node in all_nodes_created_on_rhs.drain(..) {\n        node.upgrade().unwrap().invalidate_node(state);\n    }"),
    ("c04-debug-only-side-effect", "C04", "C04.CFGD", N,
     "        debug_assert!(!self.is_in_recompute_heap());\n        debug_assert!(self.is_necessary());",
     "        debug_assert!({ self.force_necessary.set(false); !self.is_in_recompute_heap() });\n        debug_assert!(self.is_necessary());"),
    ("c04-unwrap-new-observers", "C04", "C04.WEAK", "src/state.rs",
     "        for weak in no.drain(..) {\n            let Some(obs) = weak.upgrade() else { continue };",
     "        for weak in no.drain(..) {\n            let obs = weak.upgrade().unwrap();"),
    ("c04-remove-parent-overlap", "C04", "C04.RCB-alias", N,
     "        parent_indices.my_parent_index_in_child_at_index[child_index as usize] = -1;\n        drop(parent_indices);\n",
     "        parent_indices.my_parent_index_in_child_at_index[child_index as usize] = -1;\n"),
    # ---- C05
    ("c05-var-no-necessary-check", "C05", "C05.GUARD-insert", "src/var.rs",
     "            if watch.is_necessary() && !watch.is_in_recompute_heap() {", "            if !watch.is_in_recompute_heap() {"),
    ("c05-remove-children-no-check", "C05", "C05.PDOM-release", N,
     "            child.remove_parent(index, self.as_parent_dyn_ref());\n            child.check_if_unnecessary(state);",
     "            child.remove_parent(index, self.as_parent_dyn_ref());"),
    ("c05-unnecessary-stays-in-heap", "C05", "C05.PDOM-release", N,
     "        debug_assert!(!self.needs_to_be_computed());\n        if self.is_in_recompute_heap() {\n            state.recompute_heap.remove(self.packed());\n        }\n    }\n    fn is_in_recompute_heap",
     "        debug_assert!(!self.needs_to_be_computed());\n    }\n    fn is_in_recompute_heap"),
    ("c05-stabilise-start-no-unlink", "C05", "C05.PDOM-release", "src/state.rs",
     "        self.add_new_observers();\n        self.unlink_disallowed_observers();", "        self.add_new_observers();"),
    ("c05-make-stale-unnecessary", "C05", "C05.GUARD-insert", N,
     "                if self.is_necessary() && !self.is_in_recompute_heap() {\n                    let t = self.state();",
     "                if !self.is_in_recompute_heap() {\n                    let t = self.state();"),
    ("c05-eager-mapper-in-add-parent", "C05", "C05.WMC-user", N,
     "        if !was_necessary {\n            self.became_necessary(state);\n        }\n        if let Some(Kind::Expert(expert)) = p.kind() {",
     "        if !was_necessary {\n            self.became_necessary(state);\n        }\n        if let Some(Kind::Map(m)) = p.kind() {\n            if let Some(v) = self.value_as_any() {\n                let _ = (m.mapper.borrow_mut())(&*v);\n            }\n        }\n        if let Some(Kind::Expert(expert)) = p.kind() {"),
    # ---- C06
    ("c06-swap-cutoff-args", "C06", "C06.DATA-order", N,
     "            .map_or(true, |old| !cutoff.should_cutoff(&**old, value.as_ref()));",
     "            .map_or(true, |old| !cutoff.should_cutoff(value.as_ref(), &**old));"),
    ("c06-unconditional-change", "C06", "C06.DATA-gate", N,
     "            old_value_opt.as_ref().map(|t| &**t),\n            should_change,", "            old_value_opt.as_ref().map(|t| &**t),\n            should_change || true,"),
    ("c06-no-never", "C06", "C06.PDOM-never", "src/incr.rs",
     "        Incremental::<()>::set_cutoff(&*lhs_change, Cutoff::Never);\n", ""),
    ("c06-swap-always-never", "C06", "C06.DTAB-kinds", "src/cutoff.rs",
     "            Self::Always => true,\n            Self::Never => false,", "            Self::Always => false,\n            Self::Never => true,"),
    ("c06-downcast-fail-true", "C06", "C06.DTAB-kinds", "src/cutoff.rs",
     "                    let Some(a) = a.as_any().downcast_ref::<T>() else {\n                        return false;",
     "                    let Some(a) = a.as_any().downcast_ref::<T>() else {\n                        return true;"),
    ("c06-mapref-default-false", "C06", "C06.DTAB-mapref", N,
     "                let did_change = self_old.map_or(true, |old| {", "                let did_change = self_old.map_or(false, |old| {"),
    ("c06-cutoff-changed-at", "C06", "C06.DATA-gate", N,
     "        } else {\n            tracing::info!(\"cutoff applied to value change\");",
     "        } else {\n            self.changed_at.set(state.stabilisation_num.get());\n            tracing::info!(\"cutoff applied to value change\");"),
    # ---- C07
    ("c07-try-get-ignores-status", "C07", "C07.GUARD-read", "src/internal_observer.rs",
     "                IncrStatus::Stabilising => Err(ObserverError::CurrentlyStabilising),", "                IncrStatus::Stabilising => self.value_inner(),"),
    ("c07-observe-inuse-immediately", "C07", "C07.WMW-inuse", "src/state.rs",
     "        let internal_observer = InternalObserver::new(incr);\n", "        let internal_observer = InternalObserver::new(incr);\n        internal_observer.state.set(ObserverState::InUse);\n"),
    ("c07-var-set-recomputes", "C07", "C07.WMW-value", "src/var.rs",
     "        t.num_var_sets.increment();\n", "        t.num_var_sets.increment();\n        if watch.is_necessary() {\n            let _ = watch.recompute_one(&t);\n        }\n"),
    # ---- C08
    ("c08-modify-writes-value-stabilising", "C08", "C08.SIB-writes", "src/var.rs",
     "                    let mut cloned = (*self.value.borrow()).clone();\n                    f(&mut cloned);\n                    v.replace(cloned);",
     "                    f(&mut self.value.borrow_mut());\n                    let cloned = (*self.value.borrow()).clone();\n                    v.replace(cloned);"),
    ("c08-apply-before-bump", "C08", "C08.DOM-end", "src/state.rs",
     "        self.stabilisation_num\n            .set(self.stabilisation_num.get().add1());\n        #[cfg(debug_assertions)]\n        {\n            self.only_in_debug.currently_running_node.take();\n            // t.only_in_debug.expert_nodes_created_by_current_node <- []);\n        }\n        tracing::info_span!(\"set_during_stabilisation\").in_scope(|| {\n            let mut stack = self.set_during_stabilisation.borrow_mut();\n            while let Some(var) = stack.pop() {\n                let Some(var) = var.upgrade() else { continue };\n                tracing::debug!(\"set_during_stabilisation: found var with {:?}\", var.id());\n                var.set_var_stabilise_end();\n            }\n        });\n",
     "        #[cfg(debug_assertions)]\n        {\n            self.only_in_debug.currently_running_node.take();\n        }\n        tracing::info_span!(\"set_during_stabilisation\").in_scope(|| {\n            let mut stack = self.set_during_stabilisation.borrow_mut();\n            while let Some(var) = stack.pop() {\n                let Some(var) = var.upgrade() else { continue };\n                tracing::debug!(\"set_during_stabilisation: found var with {:?}\", var.id());\n                var.set_var_stabilise_end();\n            }\n        });\n        self.stabilisation_num\n            .set(self.stabilisation_num.get().add1());\n"),
    ("c08-update-no-push", "C08", "C08.SIB-writes", "src/var.rs",
     "                    let mut stack = t.set_during_stabilisation.borrow_mut();\n                    stack.push(self.erased());\n                    // we have to clone, because we don't want to mem::take the value",
     "                    // we have to clone, because we don't want to mem::take the value"),
    ("c08-is-stable-ignores-dead-vars", "C08", "C08.DTAB-stable", "src/state.rs",
     "        self.recompute_heap.is_empty()\n            && self.dead_vars.borrow().is_empty()\n", "        self.recompute_heap.is_empty()\n"),
    ("c08-set-pushes-always", "C08", "C08.SIB-writes", "src/var.rs",
     "                if v.is_none() {\n                    let mut stack = t.set_during_stabilisation.borrow_mut();\n                    stack.push(self.erased());\n                }",
     "                {\n                    let mut stack = t.set_during_stabilisation.borrow_mut();\n                    stack.push(self.erased());\n                }"),
    # ---- C10
    ("c10-created-to-disallowed", "C10", "C10.TS-transitions", "src/internal_observer.rs",
     "                self.state.set(Unlinked);", "                self.state.set(Disallowed);"),
    ("c10-value-inner-created-disallowed", "C10", "C10.DTAB-api", "src/internal_observer.rs",
     "            Created => Err(ObserverError::NeverStabilised),", "            Created => Err(ObserverError::Disallowed),"),
    ("c10-sentinel-le-2", "C10", "C10.GUARD-sentinel", "src/public.rs",
     "        // all_observers holds another strong reference to internal. but we can be _sure_ we're the last public::Observer by using a sentinel Rc.\n        if Rc::strong_count(&self.sentinel) <= 1 {",
     "        if Rc::strong_count(&self.sentinel) <= 2 {"),
    ("c10-unsubscribe-no-token-check", "C10", "C10.DTAB-api", "src/internal_observer.rs",
     "        if token.0 != self.id {\n            return Err(ObserverError::Mismatch);\n        }\n", ""),
    ("c10-token-public-fields", "C10", "C10.CFW-token", "src/internal_observer.rs",
     "pub struct SubscriptionToken(ObserverId, i32);", "pub struct SubscriptionToken(pub ObserverId, pub i32);"),
    ("c10-subscribe-after-disallow", "C10", "C10.DTAB-api", "src/internal_observer.rs",
     "            Disallowed | Unlinked => Err(ObserverError::Disallowed),\n            Created | InUse => {\n                let token = self.next_subscriber.get();",
     "            Unlinked => Err(ObserverError::Disallowed),\n            Created | InUse | Disallowed => {\n                let token = self.next_subscriber.get();"),
    # ---- C13
    ("c13-scope-guard-reset", "C13", "C13.WMW-status", "src/state.rs",
     "            self.stabilise_start();\n\n            while let Some(node) = self.recompute_heap.remove_min() {",
     "            self.stabilise_start();\n            struct ResetStatus<'a>(&'a State);\n            impl Drop for ResetStatus<'_> {\n                fn drop(&mut self) {\n                    if self.0.status.get() == IncrStatus::Stabilising {\n                        self.0.status.set(IncrStatus::NotStabilising);\n                    }\n                }\n            }\n            let _reset = ResetStatus(self);\n\n            while let Some(node) = self.recompute_heap.remove_min() {"),
    ("c13-catch-unwind", "C13", "C13.WMW-status", "src/state.rs",
     "                node.recompute(self);\n", "                let _ = std::panic::catch_unwind(std::panic::AssertUnwindSafe(|| node.recompute(self)));\n"),
    ("c13-status-reset-early", "C13", "C13.WMW-status", "src/state.rs",
     "        for wm in self.weak_maps.borrow().iter() {\n            let mut w = wm.borrow_mut();\n            w.garbage_collect();\n        }\n        self.status.set(IncrStatus::NotStabilising);",
     "        self.status.set(IncrStatus::NotStabilising);\n        for wm in self.weak_maps.borrow().iter() {\n            let mut w = wm.borrow_mut();\n            w.garbage_collect();\n        }"),
    ("c13-try-get-ignores-status", "C13", "C13.GUARD-read", "src/internal_observer.rs",
     "                IncrStatus::Stabilising => Err(ObserverError::CurrentlyStabilising),", "                IncrStatus::Stabilising => self.value_inner(),"),
    ("c13-no-status-assert", "C13", "C13.DOM-assert", "src/state.rs",
     "            assert_eq!(self.status.get(), IncrStatus::NotStabilising);\n", ""),
    # ---- C09
    ("c09-changed-changed-skip", "C09", "C09.DTAB-run", "src/node_update.rs",
     "                (Previously::Changed, NodeUpdateDelayed::Necessary)\n                | (Previously::Necessary, NodeUpdateDelayed::Necessary)",
     "                (Previously::Changed, NodeUpdateDelayed::Necessary)\n                | (Previously::Changed, NodeUpdateDelayed::Changed)\n                | (Previously::Necessary, NodeUpdateDelayed::Necessary)"),
    ("c09-hoist-inuse-2", "C09", "C09.GUARD-inuse", "src/internal_observer.rs",
     "        for (id, handler) in handlers.iter_mut() {\n            tracing::trace!(\"running update handler with id {id:?}\");\n            /* We have to test [state] before each on-update handler, because an on-update\n            handler might disable its own observer, which should prevent other on-update\n            handlers in the same observer from running. */\n            match self.state.get() {",
     "        let state_at_start = self.state.get();\n        for (id, handler) in handlers.iter_mut() {\n            tracing::trace!(\"running update handler with id {id:?}\");\n            match state_at_start {"),
    ("c09-no-created-at-guard", "C09", "C09.DTAB-run", "src/node_update.rs",
     "        if self.created_at < now {", "        if self.created_at <= now {"),
    ("c09-unsubscribe-keeps-handler", "C09", "C09.SIGN-unsub", "src/internal_observer.rs",
     "                self.on_update_handlers.borrow_mut().remove(&token);\n", "                let _ = self.on_update_handlers.borrow_mut().get(&token);\n"),
    ("c09-initialised-as-changed", "C09", "C09.DTAB-run", "src/public.rs",
     "                NodeUpdate::Necessary(t) => Update::Initialised(t),", "                NodeUpdate::Necessary(t) => Update::Changed(t),"),
    # ---- C11
    ("c11-remove-no-length", "C11", "C11.SIGN-heaps", "src/recompute_heap.rs",
     "        node.height_in_recompute_heap().set(-1);\n        self.length.decrement();\n    }\n\n    pub fn min_height",
     "        node.height_in_recompute_heap().set(-1);\n    }\n\n    pub fn min_height"),
    ("c11-invalid-before-unlink", "C11", "C11.DOM-invalidate", N,
     "        state.num_nodes_invalidated.increment();\n        if self.is_necessary() {",
     "        state.num_nodes_invalidated.increment();\n        self.is_valid.set(false);\n        if self.is_necessary() {"),
    ("c11-direct-height-write", "C11", "C11.WMW-markers", N,
     "        state.set_height(self.packed(), h.get());\n        debug_assert!(!self.is_in_recompute_heap());",
     "        self.height.set(h.get());\n        debug_assert!(!self.is_in_recompute_heap());"),
    ("c11-subscribe-no-count", "C11", "C11.SIGN-handlers", "src/internal_observer.rs",
     "                        num.set(num.get() + 1);\n", "                        let _ = num;\n"),
    ("c11-became-necessary-unguarded", "C11", "C11.GUARD-stats", N,
     "        if !was_necessary {\n            self.became_necessary(state);\n        }\n        if let Some(Kind::Expert(expert)) = p.kind() {",
     "        if !was_necessary || self.recomputed_at.get().is_never() {\n            self.became_necessary(state);\n        }\n        if let Some(Kind::Expert(expert)) = p.kind() {"),
    # ---- C12
    ("c12-bind-main-strong", "C12", "C12.TYG-strong", [
        ("src/kind/bind.rs", "    pub main: RefCell<WeakNode>,", "    pub main: RefCell<WeakNode>,\n    pub main_strong: RefCell<Option<NodeRef>>,"),
        ("src/incr.rs", "            main: RefCell::new(Weak::<Node>::new()),\n        });", "            main: RefCell::new(Weak::<Node>::new()),\n            main_strong: RefCell::new(None),\n        });"),
        ("src/incr.rs", "            *bind_main = main.weak();\n", "            *bind_main = main.weak();\n            *bind.main_strong.borrow_mut() = Some(main.packed());\n"),
     ], None, None),
    ("c12-var-drop-no-push", "C12", "C12.PDOM-breaker", "src/public.rs",
     "                let mut dead_vars = state.dead_vars.borrow_mut();\n                dead_vars.push(self.internal.erased());",
     "                let dead_vars = state.dead_vars.borrow_mut();\n                let _ = (&dead_vars, self.internal.erased());"),
    ("c12-destroy-no-drain", "C12", "C12.PDOM-breaker", "src/state.rs",
     "        for var in dead_vars.drain(..).filter_map(|x| x.upgrade()) {\n            var.break_rc_cycle();\n        }",
     "        dead_vars.clear();"),
    ("c12-expert-drop-keeps-children", "C12", "C12.PDOM-breaker", "src/kind/expert.rs",
     "        self.children.take();\n        self.recompute.take();", "        self.recompute.take();"),
    ("c12-unlink-keeps-observer", "C12", "C12.PDOM-breaker", "src/state.rs",
     "                let mut ao = self.all_observers.borrow_mut();\n                ao.remove(&obs.id());\n                drop(obs);",
     "                drop(obs);"),
    ("c12-parents-strong-cache", "C12", "C12.TYG-strong", [
        ("src/node.rs", "    pub force_necessary: Cell<bool>,\n", "    pub force_necessary: Cell<bool>,\n    pub last_parent: RefCell<Option<NodeRef>>,\n"),
        ("src/node.rs", "            force_necessary: false.into(),\n", "            force_necessary: false.into(),\n            last_parent: RefCell::new(None),\n"),
        ("src/node.rs", "        child_parents.push(parent_ref.weak());\n", "        child_parents.push(parent_ref.weak());\n        *child.last_parent.borrow_mut() = Some(parent_ref.packed());\n"),
     ], None, None),
    # ---- C20
    ("c20-no-within-scope", "C20", "C20.WMC-scope", "src/public.rs",
     "            let val = weak_state\n                .upgrade()\n                .unwrap()\n                .within_scope(creation_scope.clone(), || f(i.clone()));",
     "            let _ = (&weak_state, &creation_scope);\n            let val = f(i.clone());"),
    ("c20-scope-at-call-time", "C20", "C20.WMC-scope", "src/public.rs",
     "                .within_scope(creation_scope.clone(), || f(i.clone()));",
     "                .within_scope({ let _ = &creation_scope; weak_state.current_scope() }, || f(i.clone()));"),
    ("c20-gc-inverted", "C20", "C20.TYG-weak", "src/public.rs",
     "impl<K: Hash + NotObserver, V> WeakMap for WeakHashMap<K, V> {\n    fn garbage_collect(&mut self) {\n        self.retain(|_k, v| v.strong_count() != 0);",
     "impl<K: Hash + NotObserver, V> WeakMap for WeakHashMap<K, V> {\n    fn garbage_collect(&mut self) {\n        self.retain(|_k, v| v.strong_count() == 0);"),
    ("c20-not-registered", "C20", "C20.TYG-weak", "src/public.rs",
     "        self.add_weak_map(storage.clone());\n", ""),
    ("c20-always-recompute", "C20", "C20.GUARD-lookup", "src/public.rs",
     "                if let Some(found_strong) = incr {\n                    return found_strong;\n                }",
     "                let _ = incr;"),
    # ---- C14
    ("c14-no-latch-reset", "C14", "C14.DTAB-latch", "src/kind/expert.rs",
     "            self.will_fire_all_callbacks.set(true);\n", ""),
    ("c14-make-stale-no-insert", "C14", "C14.PDOM-sched", N,
     "                    let t = self.state();\n                    t.recompute_heap.insert(self.packed());\n", "                    let _t = self.state();\n"),
    ("c14-no-counter-reset", "C14", "C14.DTAB-latch", "src/kind/expert.rs",
     "            self.num_invalid_children.set(0);\n", ""),
    ("c14-decr-unguarded", "C14", "C14.SIGN-invalid-children", N,
     "            if !edge_child.is_valid() {\n                expert.decr_invalid_children();\n            }",
     "            expert.decr_invalid_children();"),
    # ---- C15
    ("c15-fold-left-adds", "C15", "C15.DTAB-unordered-fold", "incremental-map/src/lib.rs",
     "                        DiffElement::Left(value) => fold.remove(acc, key, value),", "                        DiffElement::Left(value) => fold.add(acc, key, value),"),
    ("c15-unequal-old-value", "C15", "C15.DTAB-filter-mapi", "incremental-map/src/lib.rs",
     "                            DiffElement::Unequal(_, newval) => {", "                            DiffElement::Unequal(newval, _) => {"),
    ("c15-ordmap-merge-no-remove", "C15", "C15.DTAB-merge", "incremental-map/src/im_rc.rs",
     "                        None => acc_output.remove(key),\n                        Some(r) => acc_output.insert(key.clone(), r),\n                    };\n                    acc_output\n                },\n            );\n            (output, did_change)\n        });\n        #[cfg(debug_assertions)]\n        i.set_graphviz_user_data(Box::new(format!(\n            \"incr_merge -> {}\",\n            std::any::type_name::<OrdMap<K, R>>()",
     "                        None => None,\n                        Some(r) => acc_output.insert(key.clone(), r),\n                    };\n                    acc_output\n                },\n            );\n            (output, did_change)\n        });\n        #[cfg(debug_assertions)]\n        i.set_graphviz_user_data(Box::new(format!(\n            \"incr_merge -> {}\",\n            std::any::type_name::<OrdMap<K, R>>()"),
    ("c15-no-old-input-store", "C15", "C15.PDOM-pair", "incremental-map/src/lib.rs",
     "            *oi = Some(a.clone());\n", "            let _ = &oi;\n"),
    ("c15-revert-inverted", "C15", "C15.DTAB-unordered-fold", "incremental-map/src/lib.rs",
     "                    return (init.clone(), !old_in.is_empty());", "                    return (init.clone(), old_in.is_empty());"),
    ("c15-default-update-order", "C15", "C15.DTAB-unordered-fold", "incremental-map/src/lib.rs",
     "        acc = self.remove(acc, key, old);\n        self.add(acc, key, new)", "        acc = self.remove(acc, key, new);\n        self.add(acc, key, old)"),
    ("c15-partition-update-keeps-other", "C15", "C15.DTAB-partition", "incremental-map/src/im_rc.rs",
     "                left.insert(key.clone(), val);\n                right.remove(key);", "                left.insert(key.clone(), val);"),
    ("c15-right-none-keeps", "C15", "C15.DTAB-filter-mapi", "incremental-map/src/lib.rs",
     "                            DiffElement::Right(newval) => {\n                                if let Some(v2) = f(key, newval) {\n                                    out.insert(key.clone(), v2);\n                                } else {\n                                    out.remove(key);\n                                }",
     "                            DiffElement::Right(newval) => {\n                                if let Some(v2) = f(key, newval) {\n                                    out.insert(key.clone(), v2);\n                                }"),
    ("c15-merge-left-uses-old-right", "C15", "C15.DTAB-merge", "incremental-map/src/btree_map.rs",
     "                        Left((_, left_diff)) => (left_diff.new_data(), new_right_map.get(key)),", "                        Left((_, left_diff)) => (left_diff.new_data(), None),"),
    # ---- C16
    ("c16-invalidate-before-remove", "C16", "C16.DTAB-rewire", "incremental-map/src/btree_map.rs",
     "                        let node = node.upgrade();\n                        result_weak.remove_dependency(dep);\n                        let mut acc = acc.borrow_mut();\n                        acc.remove(key);\n                        // Invalidate does have to happen after remove_dependency.\n                        if let Some(node) = node {\n                            node.invalidate();\n                        }",
     "                        let node = node.upgrade();\n                        if let Some(node) = node {\n                            node.invalidate();\n                        }\n                        result_weak.remove_dependency(dep);\n                        let mut acc = acc.borrow_mut();\n                        acc.remove(key);"),
    ("c16-left-keeps-output-key", "C16", "C16.DTAB-rewire", "incremental-map/src/im_rc.rs",
     "                        let mut acc = acc.borrow_mut();\n                        acc.remove(key);\n", "                        let _acc = acc.borrow_mut();\n"),
    ("c16-no-prev-map-store", "C16", "C16.DTAB-rewire", "incremental-map/src/btree_map.rs",
     "            *prev_map_mut = map.clone();\n", "            let _ = &prev_map_mut;\n"),
    ("c16-inner-none-ignored", "C16", "C16.DTAB-rewire", "incremental-map/src/btree_map.rs",
     "                None => {\n                    acc.remove(key);\n                }", "                None => {}"),
    # ---- C17
    ("c17-always-full-pass", "C17", "C17.GUARD-full", "incremental-map/src/lib.rs",
     "                        out\n                    });\n                (old_out, did_change)",
     "                        out\n                    });\n                let _recount = input.filter_map_collect(&mut f);\n                (old_out, did_change)"),
    ("c17-no-old-input-store", "C17", "C17.PDOM-pair", "incremental-map/src/lib.rs",
     "            *oi = Some(a.clone());\n", "            let _ = &oi;\n"),
    ("c17-unequal-stales-all", "C17", "C17.DTAB-unequal", "incremental-map/src/btree_map.rs",
     "                        if let Some(node) = node.upgrade() {\n                            node.make_stale();\n                        }\n                        nodes",
     "                        if let Some(node) = node.upgrade() {\n                            node.make_stale();\n                        }\n                        for (n, _) in nodes.values() {\n                            if let Some(n) = n.upgrade() {\n                                n.make_stale();\n                            }\n                        }\n                        nodes"),
    # ---- C18
    ("c18-equal-consumes-a-only", "C18", "C18.DTAB-merge-with", "incremental-map/src/symmetric_fold.rs",
     "            Ordering::Equal => self\n                .a\n                .next()\n                .zip(self.b.next())\n                .map(|(a, b)| MergeElement::Both(a, b)),",
     "            Ordering::Equal => self.a.next().map(MergeElement::Left),"),
    ("c18-add-left", "C18", "C18.DTAB-diff-item", "incremental-map/src/im_rc.rs",
     "            DiffItem::Add(k, v) => (k, Self::Right(v)),", "            DiffItem::Add(k, v) => (k, Self::Left(v)),"),
    ("c18-unequal-swapped", "C18", "C18.DTAB-symmetric-diff", "incremental-map/src/symmetric_fold.rs",
     "                (Some(a), Some(b)) if a != b => break DiffElement::Unequal(a, b),", "                (Some(a), Some(b)) if a != b => break DiffElement::Unequal(b, a),"),
    ("c18-mergeonce-both-no-drop", "C18", "C18.DTAB-merge-once", "incremental-map/src/symmetric_fold.rs",
     "        if less_than {\n            if both {\n                drop(self.b.next());\n            }\n            self.a.next()",
     "        if less_than {\n            let _ = both;\n            self.a.next()"),
    ("c18-fold-swapped", "C18", "C18.SIB-folds", "incremental-map/src/im_rc.rs",
     "        self.symmetric_diff(other).fold(init, f)\n    }\n\n    #[inline]\n    fn len(&self) -> usize {\n        OrdMap::len(self)",
     "        other.symmetric_diff(self).fold(init, f)\n    }\n\n    #[inline]\n    fn len(&self) -> usize {\n        OrdMap::len(self)"),
    ("c18-fused-wrong-side", "C18", "C18.DTAB-merge-with", "incremental-map/src/symmetric_fold.rs",
     "                (None, Some(_)) => {\n                    self.fused = Some(false);\n                    Ordering::Greater\n                }",
     "                (None, Some(_)) => {\n                    self.fused = Some(true);\n                    Ordering::Greater\n                }"),
    ("c18-new-data-old", "C18", "C18.DTAB-diff-item", "incremental-map/src/symmetric_fold.rs",
     "            DiffElement::Right(r) | DiffElement::Unequal(_, r) => Some(r),", "            DiffElement::Right(r) | DiffElement::Unequal(r, _) => Some(r),"),
    # ---- C19
    ("c19-no-cycle-test", "C19", "C19.DOM-cycle", "src/adjust_heights_heap.rs",
     "        if crate::rc_thin_ptr_eq(parent, original_child) {", "        if false && crate::rc_thin_ptr_eq(parent, original_child) {"),
    ("c19-no-status-assert", "C19", "C19.DOM-nested", "src/state.rs",
     "            assert_eq!(self.status.get(), IncrStatus::NotStabilising);\n", ""),
    ("c19-limit-off-by-one", "C19", "C19.DOM-limit", "src/adjust_heights_heap.rs",
     "            if height > self.max_height_allowed() {\n                panic!(", "            if height > self.max_height_allowed() + 1 {\n                panic!("),
    ("c19-no-world-assert", "C19", "C19.DOM-world", N,
     "                    assert!(crate::weak_thin_ptr_eq(rhs.weak_state(), &state.weak_self));\n", ""),
    ("c19-shrink-unchecked", "C19", "C19.DOM-limit", "src/adjust_heights_heap.rs",
     "        if (new_mha as i32) < self.max_height_seen {\n            panic!(\"cannot set max_height_allowed less than max height already seen\");\n        }\n", ""),
]


def fix_commits():
    out = subprocess.check_output(["git", "-C", REPO, "log", "--format=%h %s", "--reverse"], text=True)
    return [(l.split()[0], l.split(" ", 1)[1]) for l in out.splitlines() if l.split(" ", 1)[1].startswith("fix:")]


REVERT_EXPECT = {
    # commit subject prefix -> (property, rule)
    "fix: unsubscribing a handler": ("C11", "C11.SIGN-handlers"),
    "fix: ExpertNode::decr_invalid_children": ("C14", "C14.SIGN-invalid-children"),
    "fix: run the edge callback": ("C14", "C14.PROV-edge-owner"),
    "fix: do not hold the index cells": ("C14", "C14.RCB-swap"),
    "fix: set_max_height_allowed keeps": ("C19", "C19.SIB-queue-len"),
    "fix: only recompute a single-child parent": ("C02", "C02.GUARD-bypass"),
    "fix: skip dropped nodes": ("C04", "C04.WEAK"),
    "fix: incr_(filter_)mapi_ tolerates": ("C04", "C04.WEAK-map"),
    "fix: map_ref nodes re-synchronise": ("C01", "C01.LATCH-mapref"),
    "fix: node_update reports Changed": ("C09", "C09.DTAB-node-update"),
}


def main():
    verify = "--verify" in sys.argv
    os.makedirs(OUT, exist_ok=True)
    index = []
    # reverse patches of the fix commits
    for h, subj in fix_commits():
        exp = None
        for k, v in REVERT_EXPECT.items():
            if subj.startswith(k):
                exp = v
        if exp is None:
            print("no expectation for fix commit", h, subj)
            continue
        diff = subprocess.check_output(["git", "-C", REPO, "show", "-R", "--format=", h], text=True)
        name = "revert-%s" % h
        with open(os.path.join(OUT, name + ".patch"), "w") as fh:
            fh.write(diff)
        index.append({"name": name, "property": exp[0], "rule": exp[1], "what": "reverse of " + subj,
                      "kind": "revert-fix"})
    tmp = tempfile.mkdtemp(prefix="mutgen-")
    try:
        base = os.path.join(tmp, "a")
        subprocess.check_call(["git", "-C", REPO, "worktree", "add", "--detach", "-q", base, "HEAD"])
        try:
            for name, prop, rule, f, old, new in MUTANTS:
                edits = f if isinstance(f, list) else [(f, old, new)]
                bad = False
                for (ff, oo, nn) in edits:
                    p = os.path.join(base, ff)
                    s = open(p).read()
                    if s.count(oo) != 1:
                        print("SKIP %s: pattern occurs %d times in %s" % (name, s.count(oo), ff))
                        bad = True
                        break
                    open(p, "w").write(s.replace(oo, nn))
                if bad:
                    subprocess.check_call(["git", "-C", base, "checkout", "-q", "--", "."])
                    continue
                diff = subprocess.check_output(["git", "-C", base, "diff"], text=True)
                subprocess.check_call(["git", "-C", base, "checkout", "-q", "--", "."])
                with open(os.path.join(OUT, name + ".patch"), "w") as fh:
                    fh.write(diff)
                index.append({"name": name, "property": prop, "rule": rule, "what": name, "kind": "edit"})
        finally:
            subprocess.call(["git", "-C", REPO, "worktree", "remove", "--force", base])
    finally:
        shutil.rmtree(tmp, ignore_errors=True)
    # keep verification results from a previous run
    old = {}
    ip = os.path.join(OUT, "index.json")
    if os.path.exists(ip):
        for m in json.load(open(ip))["mutants"]:
            old[m["name"]] = m
    for m in index:
        for k in ("compiles", "tests_pass"):
            if m["name"] in old and k in old[m["name"]]:
                m[k] = old[m["name"]][k]
    with open(ip, "w") as fh:
        json.dump({"mutants": index}, fh, indent=1)
    print("wrote %d mutants" % len(index))


if __name__ == "__main__":
    main()
