"""C05 — only nodes needed by a live observer are computed (structural clauses)."""
from . import q
from .callgraph import reachable, edges
from .cfg import DefUse, origins
from .effects import _last_local
from .pdom import unexcused_path
from .usercalls import user_calls

EXPLANATION = (
    "Decided clause of C05: (WMC-user) user node functions (mapper/fold/bind/expert-recompute closures) are "
    "called only from recompute_one (fold through ArrayFold::compute), which is driven only by Node::recompute "
    "from the stabilise loop; every other user-closure field and every generic closure parameter is called "
    "only at its frozen site; (GUARD-insert) each of the RecomputeHeap::insert sites inserts a node that is "
    "known necessary: guarded by is_necessary() on that very node, or the parent end of an edge, or the node "
    "that is just becoming necessary; (PDOM-release) every release of a necessity source (remove_parent, "
    "observer unlink) is followed by check_if_unnecessary on the same node, became_unnecessary unlinks the "
    "children and leaves the recompute heap, and stabilise_start unlinks disallowed observers before the loop.")
NOT_DECIDED = "The dependency-cone computation over histories (which nodes are necessary at a given time)."
ASSUMPTIONS = ["parents-only-necessary invariant: a node appears in a parents list only while that parent is necessary"]

RO = q.NODE_IMPL + "recompute_one"
# role -> functions (roots) that may contain the call
ROLE_SITES = {
    "map": {RO}, "map_with_old": {RO}, "bind": {RO}, "expert_recompute": {RO},
    # the fold function is a generic parameter of ArrayFold: its site is the PARAM_SITES entry for
    # ArrayFold::compute, whose only caller is recompute_one (chain check below)
    "map_ref": {q.NODE_IMPL + "child_changed", q.NODE_IMPL + "value_as_any",
                "<incremental::node::Node as incremental::node::Incremental<R>>::value_as_ref"},
    "cutoff": {"incremental::cutoff::ErasedCutoff::should_cutoff"},
    "expert_obs_change": {q.EXPERT + "observability_change"},
    "edge_on_change": {"<incremental::kind::expert::Edge<T> as incremental::kind::expert::ExpertEdge>::on_change"},
    "update_handler": {"incremental::node_update::OnUpdateHandler::<T>::really_run_downcast"},
}
# functions in which a generic closure parameter / dyn callable may be invoked, with the reason
PARAM_SITES = {
    "incremental::incr::Incr::<T>::pipe": "user-facing combinator, runs at graph construction",
    "incremental::incr::Incr::<T>::pipe1": "same", "incremental::incr::Incr::<T>::pipe2": "same",
    "incremental::incr::Incr::<T>::enumerate": "wrapper closure stored as Map mapper",
    "incremental::incr::Incr::<T>::map_ref": "wrapper closure stored as MapRef mapper",
    "incremental::incr::Incr::<T>::map_cyclic": "wrapper closure stored as Map mapper",
    "incremental::incr::Incr::<T>::map_with_old": "wrapper closure stored as MapWithOld mapper",
    "incremental::incr::Incr::<T>::binds": "wrapper closure passed to bind",
    "incremental::incr::Incr::<T>::bind": "wrapper closure stored as BindNode.mapper",
    "<incremental::kind::array_fold::ArrayFold<F, I, R> as incremental::kind::KindTrait>::compute": "fold function",
    "incremental::kind::expert::ExpertNode::new_obs": "wrapper closure stored as ExpertNode.recompute",
    "incremental::kind::map::<impl incremental::incr::Incr<T1>>::map": "wrapper stored as mapper",
    "incremental::kind::map::<impl incremental::incr::Incr<T1>>::map2": "wrapper stored as mapper",
    "incremental::kind::map::<impl incremental::incr::Incr<T1>>::map3": "wrapper stored as mapper",
    "incremental::kind::map::<impl incremental::incr::Incr<T1>>::map4": "wrapper stored as mapper",
    "incremental::kind::map::<impl incremental::incr::Incr<T1>>::map5": "wrapper stored as mapper",
    "incremental::kind::map::<impl incremental::incr::Incr<T1>>::map6": "wrapper stored as mapper",
    "incremental::cutoff::Cutoff::<T>::should_cutoff": "user cutoff, called by the erased cutoff closure",
    "incremental::cutoff::ErasedCutoff::new": "erased cutoff closure",
    q.NODE_IMPL + "value_as_any": "map_ref projection on read",
    "<incremental::node::Node as incremental::node::Incremental<R>>::value_as_ref": "map_ref projection on read",
    q.NODE_IMPL + "foreach_child": "engine-internal callback",
    q.NODE_IMPL + "iter_descendants_internal_one": "engine-internal callback (dot output)",
    q.NODE + "any_child": "engine-internal callback", q.NODE + "find_child": "engine-internal callback",
    q.NODE + "try_fold_children": "engine-internal callback",
    "incremental::state::expert::create_cyclic": "constructor callback of expert::Node::new_cyclic",
    q.STATE + "within_scope": "runs the caller's closure inside a scope",
    q.VAR + "update": "var update function", q.VAR + "replace_with": "var update function",
    q.VAR + "modify": "var update function",
    "incremental::public::Observer::<T>::try_subscribe": "wrapper stored as OnUpdateHandler.handler_fn",
    "incremental::public::Var::<T>::replace_with": "wrapper passed to Var::replace_with",
    "incremental::public::IncrState::weak_memoize_fn": "memoised function (see C20)",
    "<core::cell::Cell<i32> as incremental::CellIncrement>::update_val": "counter helper",
    "<core::cell::Cell<usize> as incremental::CellIncrement>::update_val": "counter helper",
    "incremental::incr::Incr::<T>::on_update": "wrapper stored as node-level OnUpdateHandler",
    "incremental::incr::preserve_cutoff": "cutoff closure of depend_on",
}


def wmc_user(ctx, prog):
    R = "C05.WMC-user"
    ctx.rule(R, "user closures are called only at their frozen sites; node functions only from recompute_one <- "
                "Node::recompute <- the stabilise loop")
    ucs = [u for u in user_calls(prog) if u.site.fn.crate == "incremental"]
    seen_roles = set()
    for u in ucs:
        F = u.site.fn
        ctx.site(R, F, "bb%d calls %s [%s]" % (u.site.bb, u.field, u.role))
        if u.role in ROLE_SITES:
            seen_roles.add(u.role)
            if F.root not in ROLE_SITES[u.role]:
                ctx.fail(R, "site:%s:%s" % (u.role, F.short), "%s is called from %s: node functions must run only "
                         "when the stabilise loop recomputes a necessary node" % (u.field, F.short), fn=F,
                         span=u.site.span)
            else:
                ctx.ok(R, "site:%s:%s" % (u.role, F.short))
        else:
            if F.root not in PARAM_SITES:
                ctx.fail(R, "param:" + F.short, "a closure parameter / dyn callable is invoked in %s, which has no "
                         "entry in the user-call table" % F.short, fn=F, span=u.site.span, kind="anchor")
            else:
                ctx.ok(R, "param:" + F.short)
    for r in ROLE_SITES:
        if r not in seen_roles:
            ctx.missing(R, "user-call site for role " + r)
    # the chain recompute_one <- recompute <- stabilise_debug closure <- remove_min loop
    chain = [(RO, {q.NODE_IMPL + "recompute"}),
             (q.NODE_IMPL + "recompute", {q.STATE + "stabilise_debug"}),
             ("<incremental::kind::array_fold::ArrayFold<F, I, R> as incremental::kind::KindTrait>::compute", {RO}),
             (q.STATE + "stabilise_debug", {q.STATE + "stabilise", "incremental::public::IncrState::stabilise_debug"}),
             (q.STATE + "stabilise", {"incremental::public::IncrState::stabilise"})]
    for callee, allowed in chain:
        F = ctx.need_fn(R, callee)
        if F is None:
            continue
        cs = prog.callers(F)
        if not cs:
            ctx.missing(R, "callers of " + callee)
        for t in cs:
            ctx.site(R, t.fn, "bb%d call %s" % (t.bb, F.short))
            if t.fn.root not in allowed:
                ctx.fail(R, "chain:%s<-%s" % (F.name, t.fn.short), "%s is called from %s" % (F.short, t.fn.short),
                         fn=t.fn, span=t.span)
            else:
                ctx.ok(R, "chain:%s<-%s" % (F.name, t.fn.short))
    # the node handed to recompute comes out of the recompute heap
    SD = prog.fn(q.STATE + "stabilise_debug")
    if SD is not None:
        for G in prog.with_closures(SD):
            for t in q.calls_in(G, "ErasedNode>::recompute", "ErasedNode::recompute"):
                os_ = origins(G, t.arg_place(0), DefUse(G), extra_pass=q.NODE_IDENTITY)
                if q.origin_calls(os_, "RecomputeHeap::remove_min"):
                    ctx.ok(R, "source:remove_min")
                else:
                    ctx.fail(R, "source:remove_min", "the stabilise loop recomputes a node that does not come from "
                             "RecomputeHeap::remove_min", fn=G, span=t.span)
    ctx.floor(R, len(ucs), 60)


# (function, root description) -> class
INSERT_CLASSES = {
    (q.NODE_IMPL + "became_necessary", "arg1"): ("self-becoming-necessary", None),
    (q.NODE_IMPL + "parent_iter_can_recompute_now", "arg1"): ("parent-role", "callers pass an element of `parents`"),
    (q.NODE_IMPL + "state_add_parent", "arg3"): ("parent-role", "the parent being linked; callers assert it necessary"),
    (q.NODE + "maybe_change_value_manual", "arg1.parents"): ("parents-element", None),
    (q.STATE + "propagate_invalidity", "arg1.propagate_invalidity"): ("invalidity-stack", "producers push parents only"),
    (q.NODE_IMPL + "expert_make_stale", "arg1"): ("guarded", None),
    (q.NODE_IMPL + "expert_add_dependency", "arg1"): ("guarded", None),
    (q.NODE_IMPL + "expert_remove_dependency", "arg1"): ("guarded", None),
    (q.VAR + "did_set_var_while_not_stabilising", "arg1.node"): ("guarded", None),
}


def _root_desc(os_):
    out = set()
    for o in os_:
        if o.kind == "via":
            continue
        if o.kind == "arg":
            lf = [f.rsplit(".", 1)[-1] for f in o.fields if f.startswith("incremental")]
            out.add("arg%s%s" % (o.what, "".join("." + f for f in lf)))
        else:
            out.add("%s(%s)" % (o.kind, str(o.what)[-40:]))
    return "|".join(sorted(out))


def guard_insert(ctx, prog):
    R = "C05.GUARD-insert"
    ctx.rule(R, "every RecomputeHeap::insert site inserts a node known to be necessary (is_necessary()-guarded on the "
                "same node / parent end of an edge / the node becoming necessary); producers of the invalidity stack "
                "push only parents")
    sites = prog.calls_to(r"recompute_heap::RecomputeHeap::insert$")
    for t in sites:
        F = t.fn
        du = DefUse(F)
        os_ = origins(F, t.arg_place(1), du, extra_pass=q.NODE_IDENTITY + ("core::clone::Clone::clone",))
        root = _root_desc(os_)
        ctx.site(R, F, "bb%d insert(%s)" % (t.bb, root))
        cls = INSERT_CLASSES.get((F.path, root))
        inst = "insert:%s" % F.short
        if cls is None:
            ctx.fail(R, inst, "a new RecomputeHeap::insert site (node %s) that is in no necessity class: an "
                     "unnecessary node would be computed" % root, fn=F, span=t.span, kind="anchor")
            continue
        if cls[0] == "guarded":
            good = False
            for s, can, o in q.guarded_by_call(prog, F, t.bb, ("ErasedNode>::is_necessary", "ErasedNode::is_necessary"), du):
                vals = [v for x in can for v in F.cfg().edge_values(s, x)]
                if vals and 0 not in vals:
                    r2 = _root_desc(origins(F, o.site.arg_place(0), du,
                                            extra_pass=q.NODE_IDENTITY + ("core::clone::Clone::clone",)))
                    if r2 == root:
                        good = True
            if good:
                ctx.ok(R, inst, "guarded by is_necessary() on the inserted node")
            else:
                ctx.fail(R, inst, "the inserted node is not known to be necessary: the insert is not under "
                         "`<that node>.is_necessary()`", fn=F, span=t.span)
        else:
            ctx.ok(R, inst, cls[0])
    ctx.floor(R, len(sites), 9)
    # producers of the invalidity stack
    from .colls import coll_ops
    prods = []
    for F in prog.fns.values():
        if F.crate != "incremental":
            continue
        for o in coll_ops(prog, F):
            if o.sign == "+" and any(f.endswith("State.propagate_invalidity") for f in o.fields):
                prods.append(o)
    allowed = {q.NODE_IMPL + "invalidate_node": "arg1.parents", q.NODE_IMPL + "add_parent_without_adjusting_heights": "arg3"}
    for o in prods:
        F = o.fn
        du = DefUse(F)
        r = _root_desc(origins(F, o.site.arg_place(1), du, extra_pass=q.NODE_IDENTITY + ("core::clone::Clone::clone",)))
        if o.method.endswith("::extend"):
            from .c01 import _extends_with_all_parents
            if _extends_with_all_parents(prog, F, o.site, du):
                r = "arg1.parents"      # stack.extend(parents.iter().filter_map(upgrade).map(weak))
        ctx.site(R, F, "bb%d push(%s) on propagate_invalidity" % (o.bb, r))
        if allowed.get(F.path) == r:
            ctx.ok(R, "producer:" + F.short)
        else:
            ctx.fail(R, "producer:" + F.short, "propagate_invalidity receives %s, expected a parent" % r, fn=F, span=o.span)
    if len(prods) < 2:
        ctx.missing(R, "producers of State.propagate_invalidity")
    # callers of the parent-role functions pass parents
    PI = prog.fn(q.NODE_IMPL + "parent_iter_can_recompute_now")
    if PI is not None:
        for t in prog.callers(PI):
            du = DefUse(t.fn)
            r = _root_desc(origins(t.fn, t.arg_place(0), du, extra_pass=q.NODE_IDENTITY + ("core::clone::Clone::clone",)))
            ctx.site(R, t.fn, "bb%d parent_iter_can_recompute_now(%s)" % (t.bb, r))
            if r == "arg1.parents":
                ctx.ok(R, "role:parent_iter")
            else:
                ctx.fail(R, "role:parent_iter", "parent_iter_can_recompute_now is applied to %s, not an element of "
                         "`parents`" % r, fn=t.fn, span=t.span)


def pdom_release(ctx, prog):
    R = "C05.PDOM-release"
    ctx.rule(R, "remove_parent / observer unlink are followed by check_if_unnecessary on the same node; "
                "became_unnecessary unlinks children and leaves the recompute heap; stabilise_start unlinks "
                "disallowed observers")
    rel = []
    for t in prog.calls_to(r"ErasedNode>::remove_parent$|ErasedNode::remove_parent$"):
        rel.append((t, 0))
    for t in prog.calls_to(r"ErasedObserver::remove_from_observed_node$|ErasedObserver>::remove_from_observed_node$"):
        rel.append((t, None))
    n = 0
    for t, argi in rel:
        F = t.fn
        du = DefUse(F)
        c = F.cfg()
        n += 1
        checks = q.calls_in(F, "ErasedNode>::check_if_unnecessary", "ErasedNode::check_if_unnecessary")
        ctx.site(R, F, "bb%d %s; check_if_unnecessary %s" % (t.bb, q.short_path(t.callee), [x.bb for x in checks]))
        inst = "release:" + F.short
        if not checks:
            ctx.fail(R, inst, "a necessity source is released without check_if_unnecessary: the node stays in the "
                     "graph and keeps being recomputed", fn=F, span=t.span)
            continue
        p = c.path(c.succ[t.bb], c.exits, avoid={x.bb for x in checks})
        if p is not None:
            ctx.fail(R, inst, "after releasing the node a path ends without check_if_unnecessary", fn=F,
                     path=q.fmt_path(F, [t.bb] + p))
            continue
        if argi is not None:
            r1 = _root_desc(origins(F, t.arg_place(argi), du, extra_pass=q.NODE_IDENTITY + ("core::clone::Clone::clone",)))
            r2s = {_root_desc(origins(F, x.arg_place(0), du, extra_pass=q.NODE_IDENTITY + ("core::clone::Clone::clone",)))
                   for x in checks if x.bb in c.reach({t.bb})}
            if r1 not in r2s:
                ctx.fail(R, inst, "check_if_unnecessary is applied to %s, the released node is %s" % (sorted(r2s), r1),
                         fn=F, span=t.span)
                continue
        else:
            # observer unlink: the checked node is obs.observing_packed() sampled from the same observer
            okk = False
            for x in checks:
                os_ = origins(F, x.arg_place(0), du, extra_pass=q.NODE_IDENTITY)
                if q.origin_calls(os_, "ErasedObserver::observing_packed", "observing_packed"):
                    okk = True
            if not okk:
                ctx.fail(R, inst, "check_if_unnecessary after the observer unlink is not applied to the observed node",
                         fn=F, span=t.span)
                continue
        ctx.ok(R, inst)
    ctx.floor(R, n, 4)
    BU = ctx.need_fn(R, q.NODE_IMPL + "became_unnecessary")
    if BU is not None:
        c = BU.cfg()
        rc = q.calls_in(BU, "Node::remove_children")
        rm = q.calls_in(BU, "RecomputeHeap::remove")
        ctx.site(R, BU, "remove_children %s heap remove %s" % ([t.bb for t in rc], [t.bb for t in rm]))
        if rc and c.path([0], c.exits, avoid={t.bb for t in rc}) is None:
            ctx.ok(R, "became_unnecessary:children")
        else:
            ctx.fail(R, "became_unnecessary:children", "became_unnecessary does not unlink the children on every path "
                     "(the cascade stops, the subgraph keeps being computed)", fn=BU)
        p = unexcused_path(BU, 0, {t.bb for t in rm}, {"ErasedNode>::is_in_recompute_heap": 0}, from_successors=False)
        if rm and p is None:
            ctx.ok(R, "became_unnecessary:heap")
        else:
            ctx.fail(R, "became_unnecessary:heap", "a node that became unnecessary stays in the recompute heap", fn=BU,
                     path=q.fmt_path(BU, p) if p else None)
    RC = ctx.need_fn(R, q.NODE + "remove_children")
    if RC is not None:
        fc = q.calls_in(RC, "ErasedNode>::foreach_child", "ErasedNode::foreach_child")
        if fc:
            ctx.ok(R, "remove_children:all")
        else:
            ctx.fail(R, "remove_children:all", "remove_children does not visit every child", fn=RC)
    SS = ctx.need_fn(R, q.STATE + "stabilise_start")
    if SS is not None:
        c = SS.cfg()
        ul = q.calls_in(SS, "State::unlink_disallowed_observers")
        an = q.calls_in(SS, "State::add_new_observers")
        ctx.site(R, SS, "add_new_observers %s unlink_disallowed_observers %s" % ([t.bb for t in an], [t.bb for t in ul]))
        if ul and an and c.path([0], c.exits, avoid={t.bb for t in ul}) is None and \
                c.path([0], c.exits, avoid={t.bb for t in an}) is None:
            ctx.ok(R, "stabilise_start")
        else:
            ctx.fail(R, "stabilise_start", "stabilise_start must link new observers and unlink disallowed ones on every "
                     "path", fn=SS)
    SD = prog.fn(q.STATE + "stabilise_debug")
    if SD is not None:
        for G in prog.with_closures(SD):
            ss = q.calls_in(G, "State::stabilise_start")
            rm = q.calls_in(G, "RecomputeHeap::remove_min")
            if ss and rm:
                if G.cfg().dominates(ss[0].bb, rm[0].bb):
                    ctx.ok(R, "start-before-loop")
                else:
                    ctx.fail(R, "start-before-loop", "the recompute loop starts before stabilise_start", fn=G)
    # disallowed observers are drained: every entry is unlinked and checked
    UL = ctx.need_fn(R, q.STATE + "unlink_disallowed_observers")
    if UL is not None:
        from .loops import elem_loops, uncovered_iteration
        ls = elem_loops(UL)
        sinks = {t.bb for t in q.calls_in(UL, "ErasedNode>::check_if_unnecessary", "ErasedNode::check_if_unnecessary")}
        if ls and sinks:
            p = uncovered_iteration(UL, ls[0], sinks, {"Weak::upgrade": 0})
            if p is None:
                ctx.ok(R, "unlink:each")
            else:
                ctx.fail(R, "unlink:each", "a disallowed observer can be skipped", fn=UL, path=q.fmt_path(UL, p))
        else:
            ctx.fail(R, "unlink:each", "unlink_disallowed_observers no longer drains the queue", fn=UL, kind="anchor")


def bracket(ctx, prog):
    from .c11 import dom_bracket
    dom_bracket(ctx, prog, "C05.DOM-bracket")


for _f, _id in ((wmc_user, "C05.WMC-user"), (guard_insert, "C05.GUARD-insert"), (pdom_release, "C05.PDOM-release"),
                (bracket, "C05.DOM-bracket")):
    _f.rule_id = _id

def guard_transitions(ctx, prog):
    """became_necessary / became_unnecessary fire exactly on the transitions of is_necessary() (which includes
    force_necessary): a second became_necessary duplicates parent edges and leaks necessity. Same rule as
    C11.GUARD-stats, reported under C05."""
    from .engine import run_relabelled
    from .c11 import guard_stats
    run_relabelled(ctx, prog, guard_stats, "C11.GUARD-stats", "C05.GUARD-transitions")


guard_transitions.rule_id = "C05.GUARD-transitions"

def guard_sentinel(ctx, prog):
    """Dropping the last handle must always disallow the observer, otherwise its cone stays necessary and keeps
    being computed with no live observer: the last-handle test counts handles only (the sentinel), not strong
    references to the internal observer, which the engine also takes transiently. Same rule as C10.GUARD-sentinel."""
    from .engine import run_relabelled
    from .c10 import guard_sentinel as f
    run_relabelled(ctx, prog, f, "C10.GUARD-sentinel", "C05.GUARD-sentinel")


guard_sentinel.rule_id = "C05.GUARD-sentinel"

def dtab_necessity(ctx, prog):
    R = "C05.DTAB-necessity"
    ctx.rule(R, "is_necessary = !parents.is_empty() || !observers.is_empty() || force_necessary")
    from .shared import necessity_table
    necessity_table(ctx, prog, R)


dtab_necessity.rule_id = "C05.DTAB-necessity"

def dom_invalid_last(ctx, prog):
    """invalidate_node unlinks its children (remove_children) while the kind payload is still visible: after
    is_valid is cleared kind() is None and the inputs keep a dead parent for ever (they stay necessary and keep being
    computed). Same rule as C03.DOM-invalid-last."""
    from .engine import run_relabelled
    from .c03 import dom_invalid_last as f
    run_relabelled(ctx, prog, f, "C03.DOM-invalid-last", "C05.DOM-invalid-last")


dom_invalid_last.rule_id = "C05.DOM-invalid-last"

RULES = [wmc_user, guard_insert, pdom_release, bracket, guard_transitions, guard_sentinel, dtab_necessity, dom_invalid_last]

# control signature of the bookkeeping effects this property depends on (rules/ctrlsig.py)
from .ctrlsig import make_rule as _ctrl_rule  # noqa: E402
RULES.append(_ctrl_rule("C05"))
