"""Rule instances shared between properties (each property registers them under its own rule id)."""
from . import q
from .cfg import DefUse, origins
from .guards import overlapping_pairs
from .pdom import unexcused_path, bool_source, callee_matches
from .facts import strip_generics, op_place

# ---------------------------------------------------------------------------------------------
# RCB: overlapping RefCell guards on the same field of possibly-aliased nodes

# (function suffix, baseA, baseB) -> reason the two objects are provably distinct
DISTINCT = {
    ("Node::add_parent", "arg1", "arg3"): "child and parent of one edge (graph is acyclic)",
    ("ErasedNode>::remove_parent", "arg1", "arg3"): "child and parent of one edge",
    ("ErasedNode>::remove_parent", "arg1", "arg1.parents"): "a node and an element of its parents list",
    ("ErasedNode>::expert_swap_children_except_in_kind", "arg1", "arg2"): "parent and its child #1",
    ("ErasedNode>::expert_swap_children_except_in_kind", "arg1", "arg4"): "parent and its child #2",
}
MAY_ALIAS_NOTE = {
    ("ErasedNode>::expert_swap_children_except_in_kind", "arg2", "arg4"):
        "child1 and child2 are the same node when an expert node has duplicate dependencies",
    ("ErasedNode>::remove_parent", "arg3", "arg1.parents"):
        "the removed parent and the last parent are the same node for duplicate inputs",
}


def rcb_alias(ctx, prog, R, only_fn_suffix=None, floor=None):
    n = 0
    for F in prog.fns.values():
        if F.crate != "incremental":
            continue
        if only_fn_suffix and not F.path.endswith(only_fn_suffix):
            continue
        for a, b in overlapping_pairs(prog, F):
            n += 1
            ctx.site(R, F, "%r <-> %r" % (a, b))
            key = None
            for (suf, x, y), why in DISTINCT.items():
                if F.path.endswith(suf) and {a.base, b.base} == {x, y}:
                    key = (suf, x, y)
            inst = "%s:%s/%s" % (a.field.rsplit(".", 1)[-1], *sorted([a.base, b.base]))
            if key:
                ctx.ok(R, inst, DISTINCT[key])
            else:
                note = ""
                for (suf, x, y), why in MAY_ALIAS_NOTE.items():
                    if F.path.endswith(suf) and {a.base, b.base} == {x, y}:
                        note = " (" + why + ")"
                ctx.fail(R, inst, "two guards on %s are alive at once (at least one RefMut) on objects not "
                         "known to be distinct%s: RefCell double borrow" % (a.field, note),
                         fn=F, span=b.call.span)
    if floor is not None:
        ctx.floor(R, n, floor)
    return n


# ---------------------------------------------------------------------------------------------
# PDOM-sched instances: a staleness-making write is followed by a scheduling action

SCHED_EXCUSE = {
    "ErasedNode>::is_necessary": 0,
    "ErasedNode>::is_in_recompute_heap": 1,
    "ErasedNode>::is_stale": 0,
    "ErasedNode>::needs_to_be_computed": 0,
}


def sched_after(ctx, R, prog, F, inst, source_blocks, sink_names=("RecomputeHeap::insert",),
                excuse=None, extra_sinks=()):
    """Every normal path from each source block to `return` passes a sink call or an excused edge."""
    ex = dict(SCHED_EXCUSE)
    if excuse:
        ex.update(excuse)
    sinks = {t.bb for t in q.calls_in(F, *sink_names)} | set(extra_sinks)
    du = DefUse(F)
    ok = True
    for sb in source_blocks:
        ctx.site(R, F, "%s source bb%d sinks %s" % (inst, sb, sorted(sinks)))
        if sb in sinks:
            continue
        p = unexcused_path(F, sb, sinks, ex, du)
        if p is not None:
            ok = False
            ctx.fail(R, inst, "after the staleness-making write (bb%d) a path reaches the end of the "
                     "function without %s and without a necessity/heap-membership guard: the node is "
                     "stale but never scheduled" % (sb, "/".join(sink_names)), fn=F,
                     span=F.blocks[sb]["term"].get("span"), path=q.fmt_path(F, [sb] + p))
    if ok:
        ctx.ok(R, inst)
    return ok
