"""C18 — symmetric diff and ordered merge (structural clauses)."""
from . import q, dtab
from .cfg import DefUse
from .expr import expr, show, mentions, walk, closure_paths
from .facts import Place

EXPLANATION = (
    "Decided clause of C18: the step functions of the merge iterators implement the specified transition table, "
    "extracted by path-sensitive conditional constant propagation for every combination of (fused flag, head of "
    "a, head of b, comparison): MergeOnceWith::next (Less -> advance a, emit Left; Equal -> advance both, emit "
    "Both; Greater -> advance b, emit Right; one side exhausted -> latch `fused` and drain the other; both "
    "exhausted -> None), MergeOnce::next (equal heads advance both and yield one), SymmetricDiff::next (both "
    "present and unequal -> Unequal(self, other); equal -> keep looping; only self -> Left; only other -> Right), "
    "DiffElement::from_diff_item (Add -> Right, Remove -> Left, Update -> Unequal(old, new)), "
    "DiffElement::new_data; every symmetric_fold implementation folds symmetric_diff(self, other) with the given "
    "(init, f); the BTreeMap diff merges self.keys() with other.keys(); merge_shared_impl diffs (old, new) per "
    "side and merges by key comparison. Whole-map correctness then follows by induction over sorted inputs "
    "(paper argument, not machine-checked).")
NOT_DECIDED = ("That the visited keys are exactly the differing ones for all maps (needs the induction over sorted "
               "iterators; trusted: BTreeMap::keys is sorted, im_rc::OrdMap::diff is correct).")
ASSUMPTIONS = ["Peekable::peek does not consume; Iterator::next consumes exactly one element",
               "BTreeMap::keys yields keys in ascending order; OrdMap::diff yields a sorted, correct diff"]

SF = "incremental_map::symmetric_fold::"
MOW = "<incremental_map::symmetric_fold::MergeOnceWith<I, J, FCmp> as core::iter::traits::iterator::Iterator>::next"
MO = "<incremental_map::symmetric_fold::MergeOnce<I, J> as core::iter::traits::iterator::Iterator>::next"
SD = "<incremental_map::symmetric_fold::SymmetricDiff<'a, K, V> as core::iter::traits::iterator::Iterator>::next"


def _peek(f):
    return lambda e: e[0] == "call" and e[1].endswith("Peekable::peek") and e[2] and e[2][0][0] == "field" and \
        e[2][0][2][-1] == f


def _fused_syms():
    return [dtab.Sym("fused", lambda e: e[0] == "field" and e[2] == ("fused",), {0: "None", 1: "Some"}),
            dtab.Sym("fusedval", lambda e: e[0] == "field" and e[2] == ("fused", "0"), {0: "false", 1: "true"}, "bool")]


def _next_desc(F_, t, du_):
    side = show(expr(F_, t.args[0], du_)).split(".")[-1]
    kept = "" if (t.dst is not None and t.dst.is_local()) else ""
    return side


def _norm(res):
    """frozenset of action tuples -> set of compact strings without diverge-only paths."""
    out = set()
    for r in res:
        if ("diverge",) in r:
            continue
        out.add(" ; ".join("%s%s" % (a[0], "(" + a[1] + ")" if len(a) > 1 and a[1] else "") for a in r))
    return out


def _strip_call(s, name):
    """Remove the transparent wrapper `name(X)` -> X everywhere (balanced parentheses)."""
    key = name + "("
    while True:
        i = s.find(key)
        while i > 0 and (s[i - 1].isalnum() or s[i - 1] in "_:"):
            i = s.find(key, i + 1)
        if i < 0:
            return s
        j = i + len(key)
        depth = 1
        while j < len(s) and depth:
            depth += {"(": 1, ")": -1}.get(s[j], 0)
            j += 1
        s = s[:i] + s[i + len(key):j - 1] + s[j:]


def _split_args(s):
    out, depth, cur = [], 0, ""
    for ch in s:
        if ch == "," and depth == 0:
            out.append(cur.strip())
            cur = ""
            continue
        depth += {"(": 1, ")": -1}.get(ch, 0)
        cur += ch
    if cur.strip():
        out.append(cur.strip())
    return out


def _canon_ret(s, emit=None):
    """Canonical rendering of a returned Option: `x.map(Ctor)`, `x.zip(y).map(|(a,b)| Both(a,b))`, an explicit
    `match` producing Some(Ctor(..)) and the `?` operator are the same behaviour written differently."""
    import re
    for w in ("into_iter", "by_ref", "branch"):
        s = _strip_call(s, w)
    s = re.sub(r"\)\.0", ")", s)          # payload of a known-Some value
    s = s.replace("MergeElement::", "").replace("DiffElement::", "")
    m = re.match(r"^map\((.*), fn (\w+)\)$", s)
    if m:
        return "Option::Some(%s(%s))" % (m.group(2), m.group(1))
    m = re.match(r"^map\(zip\((.*)\), closure:.*\)$", s)
    if m and emit:
        a = _split_args(m.group(1))
        em = re.match(r"^(\w+)\((.*)\)$", emit)
        if em and len(a) == 2:
            args = [x.replace("arg2.0", a[0]).replace("arg2.1", a[1]) for x in _split_args(em.group(2))]
            return "Option::Some(%s(%s))" % (em.group(1), ", ".join(args))
    if s.startswith("from_residual("):
        return "Option::None()"
    return s


def _canon(res, drop_none_after_next=True):
    """Set of canonical path strings: actions (emit dropped) + canonical return; a `None` result on a path that
    has advanced an iterator is the exhausted-iterator case of `next().map(..)` and is dropped."""
    out = set()
    for r in res:
        if ("diverge",) in r:
            continue
        emit = None
        for a in r:
            if a[0] == "emit" and len(a) > 1:
                emit = a[1]
        parts = []
        ret = None
        for a in r:
            if a[0] == "emit":
                continue
            if a[0] == "ret":
                ret = _canon_ret(a[1], emit)
                continue
            parts.append("%s%s" % (a[0], "(" + a[1] + ")" if len(a) > 1 and a[1] else ""))
        if ret is not None:
            if drop_none_after_next and ret == "Option::None()" and any(x.startswith("next(") for x in parts):
                continue
            parts.append("ret(%s)" % ret)
        out.add(" ; ".join(parts))
    return out


def merge_once_with(ctx, prog):
    R = "C18.DTAB-merge-with"
    ctx.rule(R, "MergeOnceWith::next transition table")
    F = ctx.need_fn(R, MOW)
    if F is None:
        return
    syms = _fused_syms() + [dtab.Sym("a", _peek("a"), {0: "None", 1: "Some"}), dtab.Sym("b", _peek("b"), {0: "None", 1: "Some"}),
                            dtab.Sym("cmp", lambda e: e[0] == "call" and e[1].endswith("Fn::call") and mentions(
                                e, lambda x: x[0] == "field" and x[2][-1] == "fcmp"), {255: "Less", 0: "Equal", 1: "Greater"})]

    def emit(F_, t, du_):
        e = expr(F_, t.args[1], du_)
        if e[0] == "fn":
            return e[1].rsplit("::", 1)[-1]
        cps = closure_paths(e)
        if cps:
            G = prog.fn(cps[0])
            for s in G.stmts():
                if s.dst is not None and s.dst.local == 0 and s.rv and "agg" in s.rv and isinstance(s.rv["agg"], dict):
                    ops = [show(expr(G, o, DefUse(G))) for o in s.rv["ops"]]
                    return "%s(%s)" % (s.rv["agg"]["variant"], ",".join(ops))
        return show(e)[:30]
    acts = [dtab.Action("next", lambda t: q.callee_is(t, "Iterator>::next", "Iterator::next"), _next_desc),
            dtab.Action("emit", lambda t: q.callee_is(t, "Option::map"), emit)]
    tb = dtab.table(F, syms, acts, path_sensitive=True, record_returns=True, store_fields=("fused",))
    n = 0
    # comparison arguments: (head of a, head of b) in that order
    du = DefUse(F)
    for t in F.calls():
        if q.callee_is(t, "Fn::call") and mentions(expr(F, t.args[0], du), lambda x: x[0] == "field" and x[2][-1] == "fcmp"):
            e = expr(F, t.args[1], du)
            good = e[0] == "agg" and e[1] == "tuple" and _peek("a")(e[2][0][1] if e[2][0][0] == "field" else e[2][0]) and \
                _peek("b")(e[2][1][1] if e[2][1][0] == "field" else e[2][1])
            ctx.site(R, F, "fcmp(%s)" % show(e))
            if good:
                ctx.ok(R, "cmp-args")
            else:
                ctx.fail(R, "cmp-args", "the comparator is not applied to (head of a, head of b)", fn=F, span=t.span)
    LEFT = "next(a) ; ret(Option::Some(Left(next(arg1.a))))"
    RIGHT = "next(b) ; ret(Option::Some(Right(next(arg1.b))))"
    for (fu, fv, a, b, cmp), res in sorted(tb.items()):
        n += 1
        got = _canon(res)
        if fu == "Some":
            want = {LEFT} if fv == "true" else {RIGHT}
        elif a == "None" and b == "None":
            want = {"ret(Option::None())"}
        elif a == "Some" and b == "None":
            want = {"store(fused=Option::Some(1)) ; " + LEFT}
        elif a == "None" and b == "Some":
            want = {"store(fused=Option::Some(0)) ; " + RIGHT}
        elif cmp == "Less":
            want = {LEFT}
        elif cmp == "Greater":
            want = {RIGHT}
        else:
            want = {"next(a) ; next(b) ; ret(Option::Some(Both(next(arg1.a), next(arg1.b))))"}
        ctx.site(R, F, "(%s,%s,%s,%s,%s) -> %s" % (fu, fv, a, b, cmp, sorted(got)))
        inst = "cell:%s/%s/%s/%s/%s" % (fu, fv, a, b, cmp)
        if got == want:
            ctx.ok(R, inst)
        else:
            ctx.fail(R, inst, "MergeOnceWith::next with (fused=%s/%s, a=%s, b=%s, cmp=%s) does %s, specified %s" % (
                fu, fv, a, b, cmp, sorted(got), sorted(want)), fn=F)
    ctx.floor(R, n, 48)


def merge_once(ctx, prog):
    R = "C18.DTAB-merge-once"
    ctx.rule(R, "MergeOnce::next transition table (equal heads advance both iterators and yield one element)")
    F = ctx.need_fn(R, MO)
    if F is None:
        return
    cmpm = lambda name: (lambda e: e[0] == "call" and e[1].endswith("::" + name) and len(e[2]) == 2)
    syms = _fused_syms() + [dtab.Sym("a", _peek("a"), {0: "None", 1: "Some"}), dtab.Sym("b", _peek("b"), {0: "None", 1: "Some"}),
                            dtab.Sym("le", cmpm("le"), {0: "gt", 1: "le"}, "bool"),
                            dtab.Sym("eq", cmpm("eq"), {0: "ne", 1: "eq"}, "bool")]

    def nd(F_, t, du_):
        side = show(expr(F_, t.args[0], du_)).split(".")[-1]
        return side + (":ret" if t.dst is not None and t.dst.is_local() and t.dst.local == 0 else ":drop")
    acts = [dtab.Action("next", lambda t: q.callee_is(t, "Iterator>::next", "Iterator::next"), nd)]
    tb = dtab.table(F, syms, acts, path_sensitive=True, record_returns=False, store_fields=("fused",))
    n = 0
    for (fu, fv, a, b, le, eq), res in sorted(tb.items()):
        n += 1
        got = _norm(res)
        if fu == "Some":
            want = {"next(a:ret)"} if fv == "true" else {"next(b:ret)"}
        elif a == "None" and b == "None":
            want = {""}
        elif a == "Some" and b == "None":
            want = {"store(fused=Option::Some(1)) ; next(a:ret)"}
        elif a == "None" and b == "Some":
            want = {"store(fused=Option::Some(0)) ; next(b:ret)"}
        elif le == "le" and eq == "eq":
            want = {"next(b:drop) ; next(a:ret)"}
        elif le == "le":
            want = {"next(a:ret)"}
        elif eq == "eq":
            want = {"next(a:drop) ; next(b:ret)"}   # unreachable for a total order, but must stay consistent
        else:
            want = {"next(b:ret)"}
        ctx.site(R, F, "(%s,%s,%s,%s,%s,%s) -> %s" % (fu, fv, a, b, le, eq, sorted(got)))
        inst = "cell:%s/%s/%s/%s/%s/%s" % (fu, fv, a, b, le, eq)
        if got == want:
            ctx.ok(R, inst)
        else:
            ctx.fail(R, inst, "MergeOnce::next with (fused=%s/%s, a=%s, b=%s, %s, %s) does %s, specified %s: a key is "
                     "skipped or visited twice" % (fu, fv, a, b, le, eq, sorted(got), sorted(want)), fn=F)
    ctx.floor(R, n, 64)
    # le/eq compare (head a, head b)
    du = DefUse(F)
    for t in F.calls():
        if t.callee and (t.callee.endswith("::le") or t.callee.endswith("::eq")) and len(t.args) == 2:
            ea, eb = expr(F, t.args[0], du), expr(F, t.args[1], du)
            ctx.site(R, F, "%s(%s, %s)" % (t.callee.rsplit("::", 1)[-1], show(ea), show(eb)))
            if mentions(ea, _peek("a")) and mentions(eb, _peek("b")):
                ctx.ok(R, "cmp-args:" + t.callee.rsplit("::", 1)[-1])
            else:
                ctx.fail(R, "cmp-args:" + t.callee.rsplit("::", 1)[-1], "heads compared in the wrong order", fn=F, span=t.span)


def symmetric_diff(ctx, prog):
    R = "C18.DTAB-symmetric-diff"
    ctx.rule(R, "SymmetricDiff::next: both present & unequal -> Unequal(self, other); equal -> next key; only self -> "
                "Left; only other -> Right; keys exhausted -> None")
    F = ctx.need_fn(R, SD)
    if F is None:
        return
    getm = lambda f: (lambda e: e[0] == "call" and e[1].endswith("BTreeMap::get") and e[2] and e[2][0][0] == "field" and
                      e[2][0][2][-1] == f)
    on_keys = lambda e: mentions(e, lambda x: x[0] == "field" and x[2][-1] == "keys")
    if q.calls_in(F, "Try>::branch", "Try::branch"):
        # `self.keys.next()?`
        keysym = dtab.Sym("key", lambda e: e[0] == "call" and e[1].endswith("::branch") and on_keys(e), {0: "Some", 1: "None"})
    else:
        # `for key in self.keys.by_ref()` / `match self.keys.next()`
        keysym = dtab.Sym("key", lambda e: e[0] == "call" and e[1].endswith("::next") and on_keys(e), {0: "None", 1: "Some"})
    syms = [keysym,
            dtab.Sym("s", getm("self_"), {0: "None", 1: "Some"}), dtab.Sym("o", getm("other"), {0: "None", 1: "Some"}),
            dtab.Sym("ne", lambda e: e[0] == "call" and e[1].endswith("::ne"), {0: "eq", 1: "ne"}, "bool")]
    tb = dtab.table(F, syms, [], path_sensitive=True, record_returns=True)
    K = "next(arg1.keys)"
    S = "get(arg1.self_, %s)" % K
    O = "get(arg1.other, %s)" % K
    for (key, s, o, ne), res in sorted(tb.items()):
        got = _canon(res, drop_none_after_next=False)
        ctx.site(R, F, "(%s,%s,%s,%s) -> %s" % (key, s, o, ne, sorted(got)))
        if key == "None":
            want = {"ret(Option::None())"}
        elif s == "Some" and o == "Some":
            # equal values: nothing is emitted, the loop takes the next key ("loop-cut" = back at the loop head)
            want = {"ret(Option::Some(tuple(%s, Unequal(%s, %s))))" % (K, S, O)} if ne == "ne" else {"loop-cut"}
        elif s == "Some":
            want = {"ret(Option::Some(tuple(%s, Left(%s))))" % (K, S)}
        elif o == "Some":
            want = {"ret(Option::Some(tuple(%s, Right(%s))))" % (K, O)}
        else:
            want = {"ret(Option::None())"}
        inst = "cell:%s/%s/%s/%s" % (key, s, o, ne)
        if got == want:
            ctx.ok(R, inst)
        else:
            ctx.fail(R, inst, "SymmetricDiff::next with (key %s, self %s, other %s, %s) gives %s, specified %s"
                     % (key, s, o, ne, sorted(got), sorted(want)), fn=F)
    # the comparison is (self value, other value)
    du = DefUse(F)
    for t in F.calls():
        if t.callee and t.callee.endswith("::ne"):
            ea, eb = expr(F, t.args[0], du), expr(F, t.args[1], du)
            if mentions(ea, getm("self_")) and mentions(eb, getm("other")):
                ctx.ok(R, "ne-args")
            else:
                ctx.fail(R, "ne-args", "values compared are not (self[key], other[key])", fn=F, span=t.span)
    # constructor: keys = MergeOnce(self.keys(), other.keys()), self_/other not swapped
    C = ctx.need_fn(R, "<alloc::collections::btree::map::BTreeMap<K, V> as incremental_map::symmetric_fold::SymmetricDiffMap<'a, K, V>>::symmetric_diff")
    if C is not None:
        du = DefUse(C)
        good = False
        for s in C.stmts():
            rv = s.rv or {}
            if "agg" in rv and isinstance(rv["agg"], dict) and rv["agg"].get("adt", "").endswith("SymmetricDiff"):
                names = rv["agg"]["fields"]
                vals = {n: expr(C, rv["ops"][i], du) for i, n in enumerate(names)}
                ctx.site(R, C, "SymmetricDiff{%s}" % ", ".join("%s: %s" % (k, show(v)) for k, v in vals.items()))
                k = vals.get("keys", ("?",))
                good = vals.get("self_") == ("arg", 1) and vals.get("other") == ("arg", 2) and k[0] == "call" and \
                    k[1].endswith("MergeOnce::new") and show(k[2][0]) == "keys(arg1)" and show(k[2][1]) == "keys(arg2)"
        if good:
            ctx.ok(R, "ctor")
        else:
            ctx.fail(R, "ctor", "symmetric_diff does not build SymmetricDiff{self_: self, other, keys: merge(self.keys(), "
                     "other.keys())}", fn=C)


def _downcast_names(F, switch_bb):
    """value -> downcast variant name used on the arm (for foreign enums without ADT facts)."""
    c = F.cfg()
    t = F.blocks[switch_bb]["term"]
    out = {}
    for val, tgt in t["targets"]:
        names = set()
        for bb in sorted(c.reach({tgt}))[:6]:
            for s in F.block_stmts(bb):
                for pl in ([s.dst] if s.dst is not None else []):
                    names.update(pl.downcasts())
                rv = s.rv or {}
                for k in ("ref", "discr"):
                    if k in rv:
                        names.update(Place(rv[k]).downcasts())
                for k in ("use", "cast"):
                    if k in rv:
                        from .facts import op_place
                        p = op_place(rv[k])
                        if p is not None:
                            names.update(p.downcasts())
            if names:
                break
        out[val] = sorted(names)[0] if names else None
    return out


def from_diff_item(ctx, prog):
    R = "C18.DTAB-diff-item"
    ctx.rule(R, "from_diff_item: Add -> Right(v), Remove -> Left(v), Update{old,new} -> Unequal(old, new); new_data: "
                "Left -> None, Right(r) -> Some(r), Unequal(_, r) -> Some(r)")
    F = ctx.need_fn(R, "incremental_map::im_rc::<impl incremental_map::symmetric_fold::DiffElement<&'a V>>::from_diff_item")
    if F is not None:
        sw = [b["id"] for b in F.blocks if b["term"]["k"] == "switch"]
        names = _downcast_names(F, sw[0]) if sw else {}
        dom = {v: n for v, n in names.items() if n}
        tb = dtab.table(F, [dtab.Sym("item", lambda e: e == ("arg", 1), dom)], [], path_sensitive=True)
        want = {"Add": "ret(tuple(arg1.0, DiffElement::Right(arg1.1)))",
                "Remove": "ret(tuple(arg1.0, DiffElement::Left(arg1.1)))",
                "Update": "ret(tuple(arg1.old.0, DiffElement::Unequal(arg1.old.1, arg1.new.1)))"}
        for (v,), res in sorted(tb.items()):
            got = _norm(res)
            ctx.site(R, F, "%s -> %s" % (v, sorted(got)))
            if got == {want.get(v)}:
                ctx.ok(R, "item:" + v)
            else:
                ctx.fail(R, "item:" + v, "from_diff_item(%s) gives %s, specified %s" % (v, sorted(got), want.get(v)), fn=F)
        if set(dom.values()) != set(want):
            ctx.fail(R, "item:variants", "DiffItem variants seen: %s" % sorted(dom.values()), fn=F, kind="anchor")
    G = ctx.need_fn(R, SF + "DiffElement::<T>::new_data")
    if G is not None:
        DE = "incremental_map::symmetric_fold::DiffElement"
        tb = dtab.table(G, [dtab.Sym("d", lambda e: e == ("arg", 1), dtab.enum_domain(prog, DE))], [], path_sensitive=True)
        want = {"Left": "ret(Option::None())", "Right": "ret(Option::Some(arg1.0))", "Unequal": "ret(Option::Some(arg1.1))"}
        for (v,), res in sorted(tb.items()):
            got = _norm(res)
            ctx.site(R, G, "new_data(%s) -> %s" % (v, sorted(got)))
            if got == {want[v]}:
                ctx.ok(R, "new_data:" + v)
            else:
                ctx.fail(R, "new_data:" + v, "new_data(%s) gives %s, specified %s" % (v, sorted(got), want[v]), fn=G)


def folds(ctx, prog):
    R = "C18.SIB-folds"
    ctx.rule(R, "every symmetric_fold implementation is symmetric_diff(self, other).fold(init, f); OrdMap's diff maps "
                "from_diff_item over self.diff(other); merge_shared_impl diffs (old, new) per side and merges by key")
    impls = prog.find(r"as incremental_map::symmetric_fold::SymmetricFoldMap<K, V>>::symmetric_fold$|"
                      r"SymmetricFoldMap<K, V> for im_rc::ord::map::OrdMap<K, V>>::symmetric_fold$")
    for F in impls:
        du = DefUse(F)
        fd = [t for t in F.calls() if q.callee_is(t, "Iterator::fold", "Iterator>::fold")]
        good = False
        for t in fd:
            recv, init, f = (expr(F, a, du) for a in t.args[:3])
            ctx.site(R, F, "fold(%s, %s, %s)" % (show(recv), show(init), show(f)))
            if recv[0] == "call" and recv[1].endswith("symmetric_diff") and init == ("arg", 3) and f == ("arg", 4):
                a0, a1 = recv[2][0], recv[2][1]
                if mentions(a0, lambda x: x == ("arg", 1)) and mentions(a1, lambda x: x == ("arg", 2)) and \
                        not mentions(a0, lambda x: x == ("arg", 2)):
                    good = True
        if good:
            # ... and nothing else: every returning path goes through that fold, no second fold feeds `f`
            c = F.cfg()
            others = [t for G in prog.with_closures(F) for t in G.calls()
                      if q.callee_is(t, "Iterator::fold", "Iterator>::fold", "Iterator::for_each", "Iterator::try_fold")]
            bypass = c.path([0], c.exits, avoid={t.bb for t in fd})
            if bypass is not None or len(others) != 1:
                good = False
        if good:
            ctx.ok(R, "fold:" + F.short)
        else:
            ctx.fail(R, "fold:" + F.short, "symmetric_fold is not (only) symmetric_diff(self, other).fold(init, f): a "
                     "shortcut path reports differences that are not the key-wise diff", fn=F)
    ctx.floor(R, len(impls), 3)
    O = ctx.need_fn(R, "incremental_map::im_rc::<impl incremental_map::symmetric_fold::SymmetricDiffMap<'a, K, V> for im_rc::ord::map::OrdMap<K, V>>::symmetric_diff")
    if O is not None:
        du = DefUse(O)
        good = False
        for t in O.calls():
            if q.callee_is(t, "Iterator::map"):
                recv, f = expr(O, t.args[0], du), expr(O, t.args[1], du)
                ctx.site(R, O, "map(%s, %s)" % (show(recv), show(f)))
                if recv[0] == "call" and recv[1].endswith("OrdMap::diff") and recv[2][0] == ("arg", 1) and \
                        recv[2][1] == ("arg", 2) and f[0] == "fn" and f[1].endswith("from_diff_item"):
                    good = True
        if good:
            ctx.ok(R, "ordmap-diff")
        else:
            ctx.fail(R, "ordmap-diff", "OrdMap symmetric_diff is not self.diff(other).map(from_diff_item)", fn=O)
    for path in ("incremental_map::btree_map::merge_shared_impl", "incremental_map::im_rc::merge_shared_impl"):
        M = ctx.need_fn(R, path)
        if M is None:
            continue
        du = DefUse(M)
        good = False
        for t in M.calls():
            if q.callee_is(t, "MergeOnceWith::new"):
                l, r_ = expr(M, t.args[0], du), expr(M, t.args[1], du)
                ctx.site(R, M, "MergeOnceWith::new(%s, %s)" % (show(l)[:60], show(r_)[:60]))
                okl = l[0] == "call" and l[1].endswith("symmetric_diff") and l[2][1] == ("arg", 2)
                okr = r_[0] == "call" and r_[1].endswith("symmetric_diff") and r_[2][1] == ("arg", 3)
                # first argument of each diff is the *old* map of that side
                def old_side(e, idx):
                    return mentions(e, lambda x: x == ("arg", 1)) and not mentions(e, lambda x: x in (("arg", 2), ("arg", 3)))
                cmpc = closure_paths(expr(M, t.args[2], du))
                cmp_ok = False
                for cp in cmpc:
                    G = prog.fn(cp)
                    gdu = DefUse(G)
                    from .facts import Place as _Pl
                    ret = expr(G, _Pl({"local": 0, "proj": []}), gdu)
                    for tt in G.calls():
                        if tt.callee and tt.callee.endswith("::cmp"):
                            a, b = expr(G, tt.args[0], gdu), expr(G, tt.args[1], gdu)
                            # the comparator IS the key comparison: its result is returned untouched (no tie-break such
                            # as `.then(Less)`, which would never report Equal and split a Both into Left + Right)
                            if mentions(a, lambda x: x == ("arg", 2)) and mentions(b, lambda x: x == ("arg", 3)) and \
                                    ret[0] == "call" and ret[1].endswith("::cmp"):
                                cmp_ok = True
                if okl and okr and old_side(l[2][0], 0) and old_side(r_[2][0], 1) and cmp_ok:
                    good = True
        if good:
            ctx.ok(R, "merge_shared:" + M.short)
        else:
            ctx.fail(R, "merge_shared:" + M.short, "merge_shared_impl does not merge diff(old_left,new_left) with "
                     "diff(old_right,new_right) by key", fn=M)


for _f, _id in ((merge_once_with, "C18.DTAB-merge-with"), (merge_once, "C18.DTAB-merge-once"),
                (symmetric_diff, "C18.DTAB-symmetric-diff"), (from_diff_item, "C18.DTAB-diff-item"),
                (folds, "C18.SIB-folds")):
    _f.rule_id = _id

RULES = [merge_once_with, merge_once, symmetric_diff, from_diff_item, folds]
CONFIGS_QUICK = ["dbg", "rel"]

# control signature of the bookkeeping effects this property depends on (rules/ctrlsig.py)
from .ctrlsig import make_rule as _ctrl_rule  # noqa: E402
RULES.append(_ctrl_rule("C18"))
