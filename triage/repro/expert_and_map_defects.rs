use incremental::*;
use incremental::expert::*;
use incremental_map::prelude::*;
use std::cell::{Cell, RefCell};
use std::collections::BTreeMap;
use std::rc::Rc;

// D8: add dependency on already computed child to an expert node that already ran: callback never delivered
#[test]
fn d8_callback_on_late_dependency() {
    let st = IncrState::new();
    let ws = st.weak();
    let trigger = st.var(0i32);
    let c = st.var(7i32);
    let c_obs = c.observe(); // c already computed
    let sum = Rc::new(Cell::new(0i32));
    let s2 = sum.clone();
    let node = Node::<i32>::new(&ws, move || s2.get());
    let wn = node.weak();
    let cw = c.watch();
    let s3 = sum.clone();
    let adder = trigger.map(move |&t| {
        if t == 1 {
            let s4 = s3.clone();
            wn.add_dependency_with(&cw, move |v| s4.set(*v));
        }
        t
    });
    node.add_dependency(&adder);
    let o = node.watch().observe();
    st.stabilise();
    assert_eq!(o.value(), 0);
    trigger.set(1);
    st.stabilise();
    assert_eq!(o.value(), 7, "callback for newly added dep with computed child must fire before recompute");
    drop(c_obs);
}

// D9: two dependencies on the same child; remove the first
#[test]
fn d9_duplicate_dep_remove() {
    let st = IncrState::new();
    let ws = st.weak();
    let trigger = st.var(0i32);
    let c = st.var(7i32);
    let node = Node::<i32>::new(&ws, move || 1);
    let d1 = node.add_dependency(&c.watch());
    let _d2 = node.add_dependency(&c.watch());
    let wn = node.weak();
    let d1c = RefCell::new(Some(d1));
    let remover = trigger.map(move |&t| {
        if t == 1 {
            if let Some(d) = d1c.borrow_mut().take() { wn.remove_dependency(d); }
        }
        t
    });
    node.add_dependency(&remover);
    let o = node.watch().observe();
    st.stabilise();
    trigger.set(1);
    st.stabilise();
    assert_eq!(o.value(), 1);
}

// D1: remove a dependency whose child was invalidated
#[test]
fn d1_remove_invalid_child() {
    let st = IncrState::new();
    let ws = st.weak();
    let sw = st.var(0i32);
    let inner_slot: Rc<RefCell<Option<Incr<i32>>>> = Rc::new(RefCell::new(None));
    let slot2 = inner_slot.clone();
    let ws2 = ws.clone();
    // bind creating a node in its scope; that node becomes invalid when sw changes
    let b = sw.bind(move |&x| {
        let n = ws2.constant(x).map(|y| *y);
        *slot2.borrow_mut() = Some(n.clone());
        n
    });
    let ob = b.observe();
    st.stabilise();
    let scoped = inner_slot.borrow().clone().unwrap();
    let node = Node::<i32>::new(&ws, move || 42);
    let wn = node.weak();
    let dep = RefCell::new(Some(node.add_dependency(&scoped)));
    let trigger = st.var(0i32);
    // sw.map depends on sw: runs at height 2, at/after bind lhs change? make it depend on b so it runs after invalidation
    let remover = b.map2(&trigger, move |_, &t| {
        if t == 1 {
            if let Some(d) = dep.borrow_mut().take() { wn.remove_dependency(d); }
        }
        t
    });
    node.add_dependency(&remover);
    let o = node.watch().observe();
    st.stabilise();
    assert_eq!(o.try_get_value(), Ok(42));
    sw.set(1);
    trigger.set(1);
    st.stabilise();
    assert_eq!(o.try_get_value(), Ok(42), "node must survive removing an invalid child");
    drop(ob);
}

// D11: per-key function that ignores its input
#[test]
fn d11_ignore_input() {
    let st = IncrState::new();
    let mut m = BTreeMap::new();
    m.insert(1, 1);
    m.insert(2, 2);
    let v = st.var(m.clone());
    let ws = st.weak();
    let out = v.incr_mapi_(move |_k, _v| ws.constant(5));
    let o = out.observe();
    st.stabilise();
    m.remove(&1);
    v.set(m.clone());
    st.stabilise();
    assert_eq!(o.value().len(), 1);
}
// D11b shared node for several keys loses keys added later
#[test]
fn d11b_shared_node() {
    let st = IncrState::new();
    let mut m = BTreeMap::new();
    m.insert(1, 1);
    let v = st.var(m.clone());
    let shared = st.constant(5);
    let out = v.incr_mapi_(move |_k, _v| shared.clone());
    let o = out.observe();
    st.stabilise();
    assert_eq!(o.value().len(), 1);
    m.insert(2, 2);
    v.set(m.clone());
    st.stabilise();
    assert_eq!(o.value().len(), 2);
}
