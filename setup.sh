#!/bin/bash
# Build the fact extractor (offline) and warm the per-config dependency builds.
set -e
cd "$(dirname "$0")"
export CARGO_NET_OFFLINE=true
python3 - <<'PY'
import sys
sys.path.insert(0, '.')
from rules import extract
print("driver built in %.1fs" % extract.build_driver())
th, n = extract.tree_hash()
for c in extract.QUICK_CONFIGS:
    print(c, extract.extract(c, thash=th))
PY
