"""C06 — cutoffs gate propagation exactly (structural clauses)."""
from . import q, dtab
from .cfg import DefUse, origins
from .effects import writes_of
from .expr import expr, show, mentions, walk, closure_paths
from .facts import op_place

EXPLANATION = (
    "Decided clause of C06: (DATA-order) at both call sites of the erased cutoff the first argument is the "
    "previous value (taken out of value_opt before the new value is stored / the old projection) and the second "
    "the new value; (DATA-gate) the did_change flag given to maybe_change_value_manual is `no old value or "
    "!should_cutoff(old,new)`, and changed_at is written only there, in invalidate_node and in the bind change "
    "detector; (PDOM-never) Incr::bind sets Cutoff::Never on the change detector on every path; (DTAB-kinds) "
    "Cutoff::should_cutoff: Always->true, Never->false, PartialEq->a==b, Fn/FnBoxed->f(a,b) in that order, and "
    "the erased wrapper returns false when a downcast fails; (DTAB-mapref) the map_ref change flag is `no old "
    "projection or !cutoff(old projection, new projection)`.")
NOT_DECIDED = "The exact set of re-invocations per stabilise over all histories."
ASSUMPTIONS = ["Option::map_or(default, f) applies f to the contained value (std semantics)"]

MCV = q.NODE + "maybe_change_value"
SC = "cutoff::ErasedCutoff::should_cutoff"


def _closure_calling(prog, F, callee_suffix):
    for G in prog.closures_of(F):
        for t in G.calls():
            if q.callee_is(t, callee_suffix):
                return G, t
    return None, None


def data_order(ctx, prog):
    R = "C06.DATA-order"
    ctx.rule(R, "ErasedCutoff::should_cutoff(old, new): old derives from the previous value, new from the new value")
    n = 0
    # site 1: maybe_change_value
    F = ctx.need_fn(R, MCV)
    if F is not None:
        du = DefUse(F)
        G, call = _closure_calling(prog, F, SC)
        direct = q.calls_in(F, SC)
        if G is None and direct:
            # written as a `match` on the old value instead of `map_or(true, |old| ..)`
            n += 1
            call = direct[0]
            a_old = expr(F, call.args[1], du)
            a_new = expr(F, call.args[2], du)
            ctx.site(R, F, "should_cutoff(%s, %s)" % (show(a_old), show(a_new)))
            is_take = lambda x: x[0] == "call" and x[1].endswith("RefCell::take") and mentions(
                x, lambda y: y[0] == "field" and y[2][-1] == "value_opt")
            old_ok = mentions(a_old, is_take) and not mentions(a_old, lambda x: x == ("arg", 2))
            new_ok = mentions(a_new, lambda x: x == ("arg", 2)) and not mentions(a_new, is_take)
            take_call = [t for t in F.calls() if q.callee_is(t, "RefCell::take")]
            stores = [t for t in F.calls() if q.callee_is(t, "RefCell::replace")]
            order = bool(take_call and stores and F.cfg().dominates(take_call[0].bb, stores[0].bb))
            if old_ok and new_ok and order:
                ctx.ok(R, "maybe_change_value")
            else:
                ctx.fail(R, "maybe_change_value", "the cutoff is not consulted with (previous value, new value): "
                         "should_cutoff(%s, %s)" % (show(a_old)[:80], show(a_new)[:80]), fn=F, span=call.span)
        elif G is None:
            ctx.missing(R, "should_cutoff call inside maybe_change_value")
        else:
            n += 1
            gdu = DefUse(G)
            a_old = expr(G, call.args[1], gdu)
            a_new = expr(G, call.args[2], gdu)
            ctx.site(R, G, "should_cutoff(%s, %s)" % (show(a_old), show(a_new)))
            old_is_param = mentions(a_old, lambda x: x == ("arg", 2)) and not mentions(a_old, lambda x: x == ("arg", 1))
            new_is_upvar = mentions(a_new, lambda x: x[0] == "field" and x[1] == ("arg", 1) and
                                    any("value" in f for f in x[2])) and not mentions(a_new, lambda x: x == ("arg", 2))
            # in the parent: the closure is applied by map_or to take(value_opt); the captured `value` is arg2
            mo = [t for t in F.calls() if q.callee_is(t, "Option::map_or") and G.path in closure_paths(expr(F, t.args[2], du))]
            okp = False
            if mo:
                recv = expr(F, mo[0].args[0], du)
                cl = expr(F, mo[0].args[2], du)
                takes_old = mentions(recv, lambda x: x[0] == "call" and x[1].endswith("RefCell::take") and
                                     mentions(x, lambda y: y[0] == "field" and y[2][-1] == "value_opt"))
                caps_new = any(x == ("arg", 2) for x in walk(cl))
                # the take precedes the store of the new value
                take_call = [t for t in F.calls() if q.callee_is(t, "RefCell::take")]
                stores = [t for t in F.calls() if q.callee_is(t, "RefCell::replace")]
                order = bool(take_call and stores and F.cfg().dominates(take_call[0].bb, stores[0].bb)
                             and F.cfg().dominates(mo[0].bb, stores[0].bb))
                okp = takes_old and caps_new and order
            if old_is_param and new_is_upvar and okp:
                ctx.ok(R, "maybe_change_value")
            else:
                ctx.fail(R, "maybe_change_value", "the cutoff is not consulted with (previous value, new value): "
                         "should_cutoff(%s, %s)" % (show(a_old), show(a_new)), fn=G, span=call.span)
    # site 2: child_changed (map_ref)
    F = ctx.need_fn(R, q.NODE_IMPL + "child_changed")
    if F is not None:
        du = DefUse(F)
        G, call = _closure_calling(prog, F, SC)
        if G is None:
            ctx.missing(R, "should_cutoff call inside child_changed")
        else:
            n += 1
            gdu = DefUse(G)
            a_old = expr(G, call.args[1], gdu)
            a_new = expr(G, call.args[2], gdu)
            ctx.site(R, G, "should_cutoff(%s, %s)" % (show(a_old), show(a_new)))
            mo = [t for t in F.calls() if q.callee_is(t, "Option::map_or") and G.path in closure_paths(expr(F, t.args[2], du))]
            good = False
            if mo and a_old == ("arg", 2) and mentions(a_new, lambda x: x[0] == "field" and any("self_new" in f for f in x[2])):
                recv = expr(F, mo[0].args[0], du)
                cl = expr(F, mo[0].args[2], du)
                # receiver: old_value_opt (arg4) mapped through the projection
                from_old = mentions(recv, lambda x: x == ("arg", 4))
                # captured self_new: projection of the child's current value
                new_from_child = any(x[0] == "call" and x[1].endswith("value_as_any") and
                                     mentions(x, lambda y: y == ("arg", 2)) for x in walk(cl))
                good = from_old and new_from_child
            if good:
                ctx.ok(R, "child_changed")
            else:
                ctx.fail(R, "child_changed", "the map_ref cutoff is not consulted with (old projection, new projection)",
                         fn=G, span=call.span)
    # no other call site
    for t in prog.calls_to(r"cutoff::ErasedCutoff::should_cutoff$"):
        if t.fn.root not in (MCV, q.NODE_IMPL + "child_changed"):
            ctx.fail(R, "site:" + t.fn.short, "a new ErasedCutoff::should_cutoff call site without an ordering rule",
                     fn=t.fn, span=t.span, kind="anchor")
    ctx.floor(R, n, 2)


def data_gate(ctx, prog):
    R = "C06.DATA-gate"
    ctx.rule(R, "did_change = no old value || !should_cutoff(old,new); changed_at writers are exactly "
                "maybe_change_value_manual, invalidate_node and the BindLhsChange arm")
    F = ctx.need_fn(R, MCV)
    if F is not None:
        du = DefUse(F)
        cs = q.calls_in(F, "Node::maybe_change_value_manual")
        if len(cs) != 1:
            ctx.missing(R, "maybe_change_value_manual call in maybe_change_value")
        else:
            e = expr(F, cs[0].args[2], du)
            ctx.site(R, F, "did_change = %s" % show(e)[:120])
            good = False
            if e[0] == "call" and e[1].endswith("Option::map_or") and e[2][1] == ("const", 1):
                for cp in closure_paths(e[2][2]):
                    G = prog.fn(cp)
                    rets = [s for s in G.stmts() if s.dst is not None and s.dst.is_local() and s.dst.local == 0]
                    for s in rets:
                        re_ = expr(G, s.dst, DefUse(G))
                        if re_[0] == "un" and re_[1] == "Not" and re_[2][0] == "call" and re_[2][1].endswith(SC):
                            good = True
            if e[0] == "phi":
                # the same decision written as `match old { None => true, Some(o) => !cutoff(o, new) }`
                alts = set()
                for x in e[1:]:
                    for y in (x if x and isinstance(x[0], tuple) else (x,)):
                        alts.add("true" if y == ("const", 1) else
                                 "notcut" if (y[0] == "un" and y[1] == "Not" and y[2][0] == "call" and y[2][1].endswith(SC))
                                 else show(y)[:40])
                good = alts == {"true", "notcut"}
            if good:
                ctx.ok(R, "did_change")
            else:
                ctx.fail(R, "did_change", "maybe_change_value passes did_change = %s; expected `old.map_or(true, |o| "
                         "!cutoff(o,new))`" % show(e)[:100], fn=F, span=cs[0].span)
            # run_child_changed = true, old value forwarded
            e3 = expr(F, cs[0].args[3], du)
            if e3 != ("const", 1):
                ctx.fail(R, "child_changed-flag", "maybe_change_value must notify parents (run_child_changed = true)", fn=F)
    allowed = {q.NODE + "maybe_change_value_manual", q.NODE_IMPL + "invalidate_node", q.NODE_IMPL + "recompute_one"}
    ws = writes_of(prog, "incremental::node::Node.changed_at")
    for a in ws:
        ctx.site(R, a.fn, "bb%d changed_at %s" % (a.bb, a.kind))
        if a.fn.root not in allowed:
            ctx.fail(R, "writer:" + a.fn.short, "changed_at is written in %s: the cutoff no longer decides propagation"
                     % a.fn.short, fn=a.fn, span=a.span)
        else:
            ctx.ok(R, "writer:" + a.fn.short)
    ctx.floor(R, len(ws), 3)
    # inside maybe_change_value_manual every changed_at store sits on the did_change == true side
    M = prog.fn(q.NODE + "maybe_change_value_manual")
    if M is not None:
        mdu = DefUse(M)
        mc = M.cfg()
        for a in ws:
            if a.fn.path != M.path:
                continue
            gated = False
            for s_, can in mc.controlling_switches(a.bb):
                os_ = q.switch_operand_origins(M, s_, mdu)
                if any(o.kind == "arg" and o.what == 3 for o in os_):
                    vals = [v for x in can for v in mc.edge_values(s_, x)]
                    if vals and 0 not in vals:
                        gated = True
            if gated:
                ctx.ok(R, "gated:bb")
            else:
                ctx.fail(R, "gated", "changed_at is bumped although the cutoff suppressed the change (store not under "
                         "did_change == true): equal results no longer stop propagation", fn=M, span=a.span)
    from .shared import changed_at_stamp_unconditional
    changed_at_stamp_unconditional(ctx, prog, R)
    # the value written is the current stabilisation number
    for a in ws:
        if a.kind == "set":
            e = expr(a.fn, a.site.args[1], DefUse(a.fn))
            if not mentions(e, lambda x: x[0] == "field" and x[2][-1] == "stabilisation_num"):
                ctx.fail(R, "value:" + a.fn.short, "changed_at is set to %s, expected state.stabilisation_num" % show(e),
                         fn=a.fn, span=a.span)
    # staleness test compares child.changed_at > self.recomputed_at
    G = ctx.need_fn(R, q.NODE_IMPL + "is_stale_with_respect_to_a_child")
    if G is not None:
        good = False
        for H in prog.with_closures(G):
            hdu = DefUse(H)
            for t in H.calls():
                if t.callee and t.callee.endswith("::gt"):
                    a, b = expr(H, t.args[0], hdu), expr(H, t.args[1], hdu)
                    if mentions(a, lambda x: x[0] == "call" and x[1].endswith("::changed_at")) and \
                            mentions(b, lambda x: x[0] == "field" and x[2][-1] == "recomputed_at"):
                        good = True
                        ctx.site(R, H, "bb%d changed_at > recomputed_at" % t.bb)
        if good:
            ctx.ok(R, "stale-test")
        else:
            ctx.fail(R, "stale-test", "is_stale_with_respect_to_a_child no longer compares child.changed_at > "
                     "self.recomputed_at", fn=G)


def pdom_never(ctx, prog):
    R = "C06.PDOM-never"
    ctx.rule(R, "Incr::bind sets Cutoff::Never on the lhs_change node on every path")
    F = ctx.need_fn(R, "incremental::incr::Incr::<T>::bind")
    if F is None:
        return
    du = DefUse(F)
    c = F.cfg()
    sets = q.calls_in(F, "Incremental::set_cutoff", "Incremental<R>>::set_cutoff")
    good = False
    for t in sets:
        e_node = expr(F, t.args[0], du)
        e_cut = expr(F, t.args[1], du)
        ctx.site(R, F, "bb%d set_cutoff(%s, %s)" % (t.bb, show(e_node)[:60], show(e_cut)))
        is_never = e_cut[0] == "agg" and e_cut[1] == "Cutoff::Never"
        # the node is the one created with Kind::BindLhsChange
        creates = [x for x in walk(e_node) if x[0] == "call" and x[1].endswith("Node::create_rc")]
        is_lhs_change = any(mentions(x, lambda y: y[0] == "agg" and y[1] == "Kind::BindLhsChange") for x in creates)
        if is_never and is_lhs_change and c.path([0], c.exits, avoid={t.bb}) is None:
            good = True
    if good:
        ctx.ok(R, "never")
    else:
        ctx.fail(R, "never", "bind does not force Cutoff::Never on its change detector: when the closure returns an "
                 "existing stable node and () == (), the bind main node is never re-run", fn=F)
    # nobody else resets the cutoff of that node: set_cutoff callers
    SCF = prog.fn("<incremental::node::Node as incremental::node::Incremental<R>>::set_cutoff")
    if SCF is None:
        ctx.missing(R, "Node::set_cutoff")


def dtab_kinds(ctx, prog):
    R = "C06.DTAB-kinds"
    ctx.rule(R, "Cutoff::should_cutoff: Always->true, Never->false, PartialEq->eq(a,b), Fn/FnBoxed->f(a,b); the "
                "erased wrapper returns false when a downcast fails and forwards (a,b) in order")
    F = ctx.need_fn(R, "incremental::cutoff::Cutoff::<T>::should_cutoff")
    if F is not None:
        du = DefUse(F)
        syms = [dtab.Sym("kind", lambda e: e == ("arg", 1), dtab.enum_domain(prog, "incremental::cutoff::Cutoff"))]

        def d(F_, t, du_):
            if q.callee_is(t, "PartialEq::eq"):
                return "eq(%s,%s)" % (show(expr(F_, t.args[0], du_)), show(expr(F_, t.args[1], du_)))
            if t.callee is None:
                return "fnptr(%s)" % ",".join(show(expr(F_, a, du_)) for a in t.args)
            return "boxed(%s)" % show(expr(F_, t.args[1], du_))
        acts = [dtab.Action("cmp", lambda t: q.callee_is(t, "PartialEq::eq", "FnMut::call_mut") or t.callee is None, d)]
        tb = dtab.table(F, syms, acts)
        want = {"Always": ["ret(1)"], "Never": ["ret(0)"], "PartialEq": ["cmp(eq(arg2,arg3))"],
                "Fn": ["cmp(fnptr(arg2,arg3))"], "FnBoxed": ["cmp(boxed(tuple(arg2, arg3)))"]}
        for (k,), res in sorted(tb.items()):
            # the comparison's result is the function's result (call writes the return place directly)
            got = [g.split(" ; ret(call ")[0] for g in dtab.summarize(res)]
            ctx.site(R, F, "%s -> %s" % (k, got))
            if k not in want:
                ctx.fail(R, "kind:" + k, "new Cutoff variant %s without a specified truth value" % k, fn=F, kind="anchor")
            elif got != want[k]:
                ctx.fail(R, "kind:" + k, "Cutoff::%s evaluates to %s, specified %s" % (k, got, want[k]), fn=F)
            else:
                ctx.ok(R, "kind:" + k)
    G = ctx.need_fn(R, "incremental::cutoff::ErasedCutoff::new::{closure#0}")
    if G is not None:
        du = DefUse(G)
        is_dc = lambda n: (lambda e: e[0] == "call" and e[1].endswith("downcast_ref") and mentions(e, lambda x: x == ("arg", n)))
        syms = [dtab.Sym("a", is_dc(2), {0: "fail", 1: "ok"}), dtab.Sym("b", is_dc(3), {0: "fail", 1: "ok"})]
        acts = [dtab.Action("cutoff", lambda t: q.callee_is(t, "Cutoff::<T>::should_cutoff", "cutoff::Cutoff::should_cutoff"),
                            lambda F_, t, du_: "%s,%s" % (show(expr(F_, t.args[1], du_)), show(expr(F_, t.args[2], du_))))]
        tb = dtab.table(G, syms, acts)
        for (a, b), res in sorted(tb.items()):
            got = dtab.summarize(res)
            ctx.site(R, G, "(%s,%s) -> %s" % (a, b, got))
            if a == "ok" and b == "ok":
                good = len(got) == 1 and got[0].startswith("cutoff(") and "arg2" in got[0].split(",")[0] and \
                    "arg3" in got[0].split(",", 1)[1]
            else:
                good = got == ["ret(0)"]
            if good:
                ctx.ok(R, "erased:%s/%s" % (a, b))
            else:
                ctx.fail(R, "erased:%s/%s" % (a, b), "erased cutoff with downcasts (%s,%s) gives %s" % (a, b, got), fn=G)
    # ErasedCutoff::should_cutoff forwards (a, b)
    H = ctx.need_fn(R, "incremental::cutoff::ErasedCutoff::should_cutoff")
    if H is not None:
        du = DefUse(H)
        cs = [t for t in H.calls() if q.callee_is(t, "FnMut::call_mut")]
        good = False
        for t in cs:
            e = expr(H, t.args[1], du)
            ctx.site(R, H, "bb%d call_mut %s" % (t.bb, show(e)))
            if e[0] == "agg" and e[1] == "tuple" and e[2] == (("arg", 2), ("arg", 3)):
                good = True
        if good:
            ctx.ok(R, "erased:forward")
        else:
            ctx.fail(R, "erased:forward", "ErasedCutoff::should_cutoff does not forward (a, b) in order", fn=H)


def dtab_mapref(ctx, prog):
    R = "C06.DTAB-mapref"
    ctx.rule(R, "map_ref: did_change = no old projection || !cutoff(old projection, new projection); recompute "
                "propagates exactly that flag and resets it")
    F = ctx.need_fn(R, q.NODE_IMPL + "child_changed")
    if F is None:
        return
    du = DefUse(F)
    mo = [t for t in F.calls() if q.callee_is(t, "Option::map_or")]
    good = False
    for t in mo:
        e = expr(F, t.args[1], du)
        cl = closure_paths(expr(F, t.args[2], du))
        ctx.site(R, F, "bb%d map_or(default=%s)" % (t.bb, show(e)))
        for cp in cl:
            G = prog.fn(cp)
            for s in G.stmts():
                if s.dst is not None and s.dst.is_local() and s.dst.local == 0:
                    re_ = expr(G, s.dst, DefUse(G))
                    if re_[0] == "un" and re_[1] == "Not" and re_[2][0] == "call" and re_[2][1].endswith(SC) and \
                            e == ("const", 1):
                        good = True
    if good:
        ctx.ok(R, "flag")
    else:
        ctx.fail(R, "flag", "the map_ref change flag is not `self_old.map_or(true, |old| !cutoff(old, new))`", fn=F)
    RO = prog.fn(q.NODE_IMPL + "recompute_one")
    if RO is not None:
        rdu = DefUse(RO)
        cs = q.calls_in(RO, "Node::maybe_change_value_manual")
        hit = False
        for t in cs:
            e = expr(RO, t.args[2], rdu)
            if mentions(e, lambda x: x[0] == "field" and x[2][-1] == "did_change"):
                hit = True
                ctx.site(R, RO, "bb%d maybe_change_value_manual(did_change=%s)" % (t.bb, show(e)[:60]))
                e3 = expr(RO, t.args[3], rdu)
                if e3 != ("const", 0):
                    ctx.fail(R, "no-double-notify", "the MapRef arm must not re-run child_changed on parents", fn=RO)
        if hit:
            ctx.ok(R, "propagate")
        else:
            ctx.fail(R, "propagate", "the MapRef arm of recompute_one does not pass did_change on", fn=RO)


def preserve_cutoff(ctx, prog, R="C06.DATA-preserve-cutoff"):
    ctx.rule(R, "depend_on's internal cutoff suppresses exactly when input.changed_at == output.changed_at (both read "
                "from the captured weak references); it must not depend on the current stabilisation number, which "
                "differs when the node is recomputed in a later stabilisation than the one in which the input changed")
    F = ctx.need_fn(R, "incremental::incr::preserve_cutoff::{closure#0}")
    P = ctx.need_fn(R, "incremental::incr::preserve_cutoff")
    if F is None or P is None:
        return
    du = DefUse(F)
    rets = []
    for t in F.calls():
        if t.dst is not None and t.dst.is_local() and t.dst.local == 0:
            rets.append(("call", t))
    for st in F.stmts():
        if st.dst is not None and st.dst.is_local() and st.dst.local == 0:
            rets.append(("assign", st))
    good = False
    desc = []
    for kind, site in rets:
        e = expr(F, q.Place({"local": 0, "proj": []}), du) if kind == "assign" else \
            ("call", q.strip_generics(site.callee or "?"), tuple(expr(F, a, du) for a in site.args))
        desc.append(show(e)[:160])
        if e[0] == "call" and e[1].endswith("::eq") and len(e[2]) == 2:
            a, b = e[2]
            def side(x, name):
                return x[0] == "call" and x[1].endswith("changed_at") and mentions(
                    x, lambda y: y[0] == "field" and y[1] == ("arg", 1) and any(name in f for f in y[2]))
            # one operand from the captured input, the other from the captured output (upvar #0 / #1)
            caps = [c["name"] for c in F.j.get("captures", [])]
            if len(caps) == 2 and ((side(a, "upvar#0") and side(b, "upvar#1")) or (side(a, "upvar#1") and side(b, "upvar#0"))):
                good = True
    ctx.site(R, F, "cutoff verdict = %s" % desc)
    if mentions(("x",) + tuple(expr(F, a, du) for t in F.calls() for a in t.args), lambda y: y[0] == "field" and y[2][-1] == "stabilisation_num"):
        good = False
    # the two captures are weak handles of (input, output) in that order
    pdu = DefUse(P)
    caps_ok = False
    for st in P.stmts():
        rv = st.rv or {}
        if "agg" in rv and isinstance(rv["agg"], dict) and rv["agg"].get("closure") == F.path:
            ops = [expr(P, o, pdu) for o in rv["ops"]]
            caps_ok = len(ops) == 2 and all(o[0] == "call" and o[1].endswith("Incr::weak") for o in ops) and \
                ops[0][2][0] == ("arg", 1) and ops[1][2][0] == ("arg", 2)
    if good and caps_ok:
        ctx.ok(R, "verdict")
    else:
        ctx.fail(R, "verdict", "preserve_cutoff's closure decides by %s (captures ok=%s); specified: changed_at(input) == "
                 "changed_at(output). A depend_on node recomputed later than its input changed would take the new value "
                 "but suppress the change, leaving its dependants stale" % (desc, caps_ok), fn=F)
    # depend_on installs it on its own output with (self, output)
    D = ctx.need_fn(R, "incremental::incr::Incr::<T>::depend_on")
    if D is not None:
        ddu = DefUse(D)
        cs = q.calls_in(D, "incr::preserve_cutoff")
        okd = False
        for t in cs:
            a, b = expr(D, t.args[0], ddu), expr(D, t.args[1], ddu)
            ctx.site(R, D, "preserve_cutoff(%s, %s)" % (show(a), show(b)[:60]))
            if a == ("arg", 1) and b[0] == "call" and "map2" in b[1]:
                okd = True
        if okd:
            ctx.ok(R, "installed")
        else:
            ctx.fail(R, "installed", "depend_on does not install preserve_cutoff(self, output)", fn=D)


for _f, _id in ((data_order, "C06.DATA-order"), (data_gate, "C06.DATA-gate"), (pdom_never, "C06.PDOM-never"),
                (dtab_kinds, "C06.DTAB-kinds"), (dtab_mapref, "C06.DTAB-mapref"),
                (preserve_cutoff, "C06.DATA-preserve-cutoff")):
    _f.rule_id = _id

def guard_var_write(ctx, prog):
    """A var write is an input result like any other: it must reach the watch node's cutoff, not be filtered
    before it (deferred writes are applied unconditionally at stabilise end). Same rule as C08.GUARD-value,
    reported under C06."""
    from .engine import run_relabelled
    from .c08 import guard_value
    run_relabelled(ctx, prog, guard_value, "C08.GUARD-value", "C06.GUARD-var-write")


guard_var_write.rule_id = "C06.GUARD-var-write"

def dtab_staleness(ctx, prog):
    R = "C06.DTAB-staleness"
    ctx.rule(R, "is_stale per kind (Var: set_at > recomputed_at; Constant: never computed; map-like/bind: never computed "
                "|| a child changed since; Expert: also force_stale; invalid: false), edge_is_stale, needs_to_be_computed")
    from .shared import staleness_tables
    staleness_tables(ctx, prog, R)


dtab_staleness.rule_id = "C06.DTAB-staleness"

RULES = [data_order, data_gate, pdom_never, dtab_kinds, dtab_mapref, preserve_cutoff, guard_var_write, dtab_staleness]

# control signature of the bookkeeping effects this property depends on (rules/ctrlsig.py)
from .ctrlsig import make_rule as _ctrl_rule  # noqa: E402
RULES.append(_ctrl_rule("C06"))
