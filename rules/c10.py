"""C10 — observer handle lifecycle (structural clauses)."""
import os
import subprocess

from . import q, dtab
from .cfg import DefUse, origins
from .effects import writes_of, resolve_fields
from .expr import expr, show, mentions

EXPLANATION = (
    "Decided clause of C10: (TS-transitions) every store to InternalObserver.state is one of the documented "
    "transitions Created->InUse (add_new_observers), Created->Unlinked / InUse->Disallowed "
    "(disallow_future_use), Disallowed->Unlinked (unlink_disallowed_observers), *->Disallowed when the state is "
    "already gone (Observer::drop), with the source state read off the dominating match arm; (DTAB-api) "
    "value_inner, subscribe and unsubscribe return the documented result per observer state, the token check of "
    "unsubscribe comes first, State::unsubscribe is a no-op for an unknown observer; (GUARD-sentinel) "
    "Observer::drop ends the lifecycle only when Rc::strong_count(sentinel) <= 1, clones share the sentinel and "
    "new() allocates a fresh one; (CFW-token) a SubscriptionToken cannot be constructed outside the crate "
    "(compile-fail witness with a compiling twin).")
NOT_DECIDED = "That no call ever affects another observer of the same node beyond the counter rules of C11."
ASSUMPTIONS = ["specification table B.1 of DESIGN.md"]

OS = "incremental::internal_observer::ObserverState"
F_STATE = "incremental::internal_observer::InternalObserver.state"

ALLOWED_EDGES = {
    (q.STATE + "add_new_observers", "Created", "InUse"),
    (q.OBS_IMPL + "disallow_future_use", "Created", "Unlinked"),
    (q.OBS_IMPL + "disallow_future_use", "InUse", "Disallowed"),
    (q.STATE + "unlink_disallowed_observers", "Disallowed", "Unlinked"),
    ("<incremental::public::Observer<T> as core::ops::drop::Drop>::drop", "*", "Disallowed"),
}


def ts_transitions(ctx, prog):
    R = "C10.TS-transitions"
    ctx.rule(R, "stores to InternalObserver.state form exactly the documented automaton")
    ws = [a for a in writes_of(prog, F_STATE) if a.kind in ("set", "replace")]
    seen = set()
    by_fn = {}
    for a in ws:
        by_fn.setdefault(a.fn.path, []).append(a)
    for fpath, sites in sorted(by_fn.items()):
        F = prog.fns[fpath]
        du = DefUse(F)
        site_ids = {id(a.site): a for a in sites}

        def dval(F_, t, du_):
            e = expr(F_, t.args[1], du_)
            return e[1].split("::")[1] if e[0] == "agg" and e[1].startswith("ObserverState::") else "?" + show(e)
        sym = dtab.Sym("state", lambda e: dtab.is_field_get("state")(e) or (
            e[0] == "call" and e[1].endswith("::get") and mentions(e, lambda x: x[0] == "call" and x[1].endswith("ErasedObserver::state"))),
            dtab.enum_domain(prog, OS))
        live = F.cfg().reachable_from_entry()
        reads_state = any(b["term"]["k"] == "switch" and b["id"] in live and dtab._switch_symbol(F, b["id"], [sym], du, {})
                          for b in F.blocks)
        acts = [dtab.Action("set", lambda t: id(t) in site_ids, dval)]
        if reads_state:
            tb = dtab.table(F, [sym], acts, record_returns=False, path_sensitive=True)
            edges = set()
            for (src,), res in tb.items():
                for r in res:
                    for a_ in r:
                        if a_[0] == "set":
                            edges.add((src, a_[1]))
        else:
            # the source state is not inspected here: unlink_disallowed_observers drains a queue whose only
            # producer stores Disallowed first (checked below); Observer::drop runs when the State is gone
            srcs = ["Disallowed"] if fpath == q.STATE + "unlink_disallowed_observers" else ["*"]
            edges = set()
            for a in sites:
                edges.update((s_, dval(F, a.site, du)) for s_ in srcs)
        for a in sites:
            ctx.site(R, F, "bb%d state store" % a.bb)
        for src, dst in sorted(edges):
            ctx.site(R, F, "transition %s -> %s" % (src, dst))
            if dst.startswith("?"):
                ctx.fail(R, "store:" + F.short, "observer state set to a computed value %s" % dst, fn=F, kind="anchor")
                continue
            if src == dst:
                continue
            edge = (F.path, src, dst)
            if edge in ALLOWED_EDGES:
                seen.add(edge)
                ctx.ok(R, "edge:%s:%s->%s" % (F.short, src, dst))
            else:
                ctx.fail(R, "edge:%s:%s->%s" % (F.short, src, dst), "undocumented observer transition %s -> %s in %s"
                         % (src, dst, F.short), fn=F, span=sites[0].span)
    for e in sorted(ALLOWED_EDGES - seen):
        ctx.fail(R, "missing-edge:%s->%s" % (e[1], e[2]), "documented transition %s -> %s (in %s) has no site" %
                 (e[1], e[2], q.short_path(e[0])), fn=None, kind="anchor")
    ctx.floor(R, len(ws), 5)
    # producers of disallowed_observers store Disallowed first
    from .colls import coll_ops
    for F in prog.fns.values():
        if F.crate != "incremental":
            continue
        for o in coll_ops(prog, F):
            if o.sign == "+" and any(f.endswith("State.disallowed_observers") for f in o.fields):
                ctx.site(R, F, "bb%d push on disallowed_observers" % o.bb)
                if F.path != q.OBS_IMPL + "disallow_future_use":
                    ctx.fail(R, "producer:" + F.short, "disallowed_observers is fed outside disallow_future_use", fn=F,
                             span=o.span)
                else:
                    st = [a for a in ws if a.fn.path == F.path and F.cfg().dominates(a.bb, o.bb)]
                    vals = {expr(F, a.site.args[1], DefUse(F))[1] for a in st}
                    if "ObserverState::Disallowed" in vals:
                        ctx.ok(R, "producer:Disallowed")
                    else:
                        ctx.fail(R, "producer:Disallowed", "an observer is queued for unlinking without being marked "
                                 "Disallowed", fn=F, span=o.span)
    # the Observer::drop store happens only when the State is gone
    D = prog.fn("<incremental::public::Observer<T> as core::ops::drop::Drop>::drop")
    if D is not None:
        du = DefUse(D)
        for a in ws:
            if a.fn.path != D.path:
                continue
            okg = False
            for s, can in D.cfg().controlling_switches(a.bb):
                se = expr(D, D.blocks[s]["term"]["on"], du)
                if se[0] == "discr" and se[1][0] == "call" and se[1][1].endswith("incr_state"):
                    vals = [v for x in can for v in D.cfg().edge_values(s, x)]
                    if 1 not in vals:
                        okg = True
            if okg:
                ctx.ok(R, "drop:state-gone")
            else:
                ctx.fail(R, "drop:state-gone", "Observer::drop overwrites the observer state although the State is "
                         "alive (the unlink queue is bypassed)", fn=D, span=a.span)


def dtab_api(ctx, prog):
    R = "C10.DTAB-api"
    ctx.rule(R, "value_inner / subscribe / unsubscribe / State::unsubscribe return the documented result per state")
    st = lambda: dtab.Sym("state", dtab.is_field_get("state"), dtab.enum_domain(prog, OS))
    # value_inner
    F = ctx.need_fn(R, q.OBS + "value_inner")
    if F is not None:
        tb = dtab.table(F, [st()], [dtab.Action("read", lambda t: q.callee_is(t, "Incremental::value_opt"))])
        want = {"Created": ["ret(Result::Err(ObserverError::NeverStabilised()))"],
                "Disallowed": ["ret(Result::Err(ObserverError::Disallowed()))"],
                "Unlinked": ["ret(Result::Err(ObserverError::Disallowed()))"]}
        for (s,), res in sorted(tb.items()):
            got = dtab.summarize(res)
            ctx.site(R, F, "value_inner(%s) -> %s" % (s, got))
            if s == "InUse":
                good = len(got) == 1 and got[0].startswith("read") and "ok_or" in got[0]
                # the error for a node without value is ObservingInvalid
                du = DefUse(F)
                oks = [t for t in F.calls() if q.callee_is(t, "Option::ok_or")]
                good = good and any(mentions(expr(F, t.args[1], du), lambda x: x[0] == "agg" and
                                             x[1] == "ObserverError::ObservingInvalid") for t in oks)
            else:
                good = got == want[s]
            if good:
                ctx.ok(R, "value_inner:" + s)
            else:
                ctx.fail(R, "value_inner:" + s, "value_inner in state %s gives %s" % (s, got), fn=F)
    # subscribe
    F = ctx.need_fn(R, q.OBS + "subscribe")
    if F is not None:
        def is_ins(t):
            return q.callee_is(t, "HashMap::insert") and any(
                f.endswith("InternalObserver.on_update_handlers") for f in resolve_fields(prog, F, t.arg_place(0)))
        tb = dtab.table(F, [st()], [dtab.Action("insert", is_ins)], path_sensitive=True)
        for (s,), res in sorted(tb.items()):
            got = dtab.summarize(res)
            ctx.site(R, F, "subscribe(%s) -> %s" % (s, got))
            if s in ("Disallowed", "Unlinked"):
                good = got == ["ret(Result::Err(ObserverError::Disallowed()))"]
            else:
                good = len(got) == 1 and got[0].startswith("insert") and "Result::Ok" in got[0]
            if good:
                ctx.ok(R, "subscribe:" + s)
            else:
                ctx.fail(R, "subscribe:" + s, "subscribe in state %s gives %s" % (s, got), fn=F)
    # unsubscribe
    F = ctx.need_fn(R, q.OBS_IMPL + "unsubscribe")
    if F is not None:
        tok = dtab.Sym("token", lambda e: e[0] == "call" and e[1].endswith("::ne") and mentions(e, lambda x: x[0] == "field" and x[2][-1] == "id"),
                       {0: "own", 1: "foreign"}, "bool")
        tok_eq = dtab.Sym("token", lambda e: e[0] == "call" and e[1].endswith("::eq") and mentions(e, lambda x: x[0] == "field" and x[2][-1] == "id"),
                          {1: "own", 0: "foreign"}, "bool")
        du = DefUse(F)
        use_eq = any(b["term"]["k"] == "switch" and tok_eq.match(expr(F, b["term"]["on"], du)) for b in F.blocks)

        def is_rem(t):
            return q.callee_is(t, "HashMap::remove") and any(
                f.endswith("InternalObserver.on_update_handlers") for f in resolve_fields(prog, F, t.arg_place(0)))
        tb = dtab.table(F, [tok_eq if use_eq else tok, st()], [dtab.Action("remove", is_rem)])
        for (tk, s), res in sorted(tb.items()):
            got = dtab.summarize(res)
            ctx.site(R, F, "unsubscribe(%s,%s) -> %s" % (tk, s, got))
            if tk == "foreign":
                good = got == ["ret(Result::Err(ObserverError::Mismatch()))"]
                why = "a token of another observer must be rejected with Mismatch before anything else"
            elif s in ("Disallowed", "Unlinked"):
                good = got == ["ret(Result::Ok(tuple()))"]
                why = "unsubscribing from a dead observer is a silent Ok"
            else:
                good = got == ["remove ; ret(Result::Ok(tuple()))"]
                why = "the handler must be removed and Ok returned"
            if good:
                ctx.ok(R, "unsubscribe:%s/%s" % (tk, s))
            else:
                ctx.fail(R, "unsubscribe:%s/%s" % (tk, s), "unsubscribe(%s token, %s) gives %s; %s" % (tk, s, got, why), fn=F)
    # State::unsubscribe
    F = ctx.need_fn(R, q.STATE + "unsubscribe")
    if F is not None:
        look = dtab.Sym("lookup", lambda e: e[0] == "call" and e[1].endswith("HashMap::get") and
                        mentions(e, lambda x: x[0] == "field" and x[2][-1] == "all_observers"), {0: "miss", 1: "hit"})
        tb = dtab.table(F, [look], [dtab.Action("unsubscribe", lambda t: q.callee_is(t, "ErasedObserver::unsubscribe"))],
                        record_returns=False)
        for (l,), res in sorted(tb.items()):
            got = sorted({tuple(a[0] for a in r if a[0] == "unsubscribe") for r in res})
            ctx.site(R, F, "State::unsubscribe(%s) -> %s" % (l, got))
            good = got == ([()] if l == "miss" else [("unsubscribe",)])
            if good:
                ctx.ok(R, "state-unsubscribe:" + l)
            else:
                ctx.fail(R, "state-unsubscribe:" + l, "State::unsubscribe with lookup %s does %s" % (l, got), fn=F)
        du = DefUse(F)
        for t in F.calls():
            if q.callee_is(t, "HashMap::get"):
                e = expr(F, t.args[1], du)
                if not mentions(e, lambda x: x[0] == "call" and x[1].endswith("observer_id")):
                    ctx.fail(R, "state-unsubscribe:key", "State::unsubscribe does not look the observer up by the "
                             "token's observer id", fn=F, span=t.span)


def pdom_mismatch(ctx, prog):
    R = "C10.PDOM-mismatch"
    ctx.rule(R, "Observer::unsubscribe(token) decides through its OWN internal observer on every path (that is where a "
                "token of another observer is answered with Mismatch); it never routes by the token's owner")
    F = ctx.need_fn(R, "incremental::public::Observer::<T>::unsubscribe")
    if F is None:
        return
    c = F.cfg()
    du = DefUse(F)
    own = []
    for t in F.calls():
        if q.callee_is(t, "ErasedObserver::unsubscribe", "ErasedObserver>::unsubscribe", "InternalObserver::unsubscribe"):
            recv = expr(F, t.args[0], du)
            if mentions(recv, lambda x: x[0] == "field" and x[1] == ("arg", 1) and str(x[2][0]).endswith("internal")):
                own.append(t)
    others = [t for t in F.calls() if q.callee_is(t, "State::unsubscribe", "IncrState::unsubscribe", "WeakState::unsubscribe")]
    ctx.site(R, F, "own-observer unsubscribe calls %s; by-owner routing calls %s" % ([t.bb for t in own], [t.bb for t in others]))
    if not own:
        ctx.fail(R, "own", "Observer::unsubscribe does not ask its own internal observer", fn=F)
    elif c.path([0], c.exits, avoid={t.bb for t in own}) is not None or others:
        ctx.fail(R, "own", "Observer::unsubscribe can answer without its own observer's check (e.g. by looking the "
                 "token's owner up in the state): a token of another observer is accepted and that observer's "
                 "subscription is removed instead of Err(Mismatch)", fn=F, span=(others or own)[0].span)
    else:
        ctx.ok(R, "own")


pdom_mismatch.rule_id = "C10.PDOM-mismatch"


def guard_sentinel(ctx, prog):
    R = "C10.GUARD-sentinel"
    ctx.rule(R, "Observer::drop disallows only when Rc::strong_count(&sentinel) <= 1; clone() clones the sentinel; "
                "new() allocates a fresh sentinel")
    D = ctx.need_fn(R, "<incremental::public::Observer<T> as core::ops::drop::Drop>::drop")
    if D is not None:
        du = DefUse(D)
        c = D.cfg()
        sw = None
        for b in D.blocks:
            t = b["term"]
            if t["k"] == "switch":
                e = expr(D, t["on"], du)
                if e[0] == "bin" and mentions(e, lambda x: x[0] == "call" and x[1].endswith("Rc::strong_count") and
                                              mentions(x, lambda y: y[0] == "field" and y[2][-1] == "sentinel")):
                    sw = (b["id"], e)
        acts = q.calls_in(D, "ErasedObserver::disallow_future_use", "disallow_future_use") + \
            [a.site for a in writes_of(prog, F_STATE) if a.fn.path == D.path]
        ctx.site(R, D, "sentinel test %s; lifecycle-ending actions %s" % (show(sw[1]) if sw else None, [t.bb for t in acts]))
        if sw is None or not acts:
            ctx.fail(R, "drop", "Observer::drop has no sentinel count test", fn=D)
        else:
            sb, e = sw
            last = (e[1] == "Le" and e[3] == ("const", 1)) or (e[1] == "Lt" and e[3] == ("const", 2)) or \
                   (e[1] == "Eq" and e[3] == ("const", 1))
            true_edges = {x for x in c.succ[sb] if 0 not in c.edge_values(sb, x)}
            guarded = all(any(t.bb in c.reach({x}, avoid={sb}) for x in true_edges) and
                          not any(t.bb in c.reach({x}, avoid={sb}) for x in set(c.succ[sb]) - true_edges) for t in acts)
            if last and guarded:
                ctx.ok(R, "drop")
            else:
                ctx.fail(R, "drop", "the lifecycle ends under `%s` (must be: this is the last clone, strong_count <= 1)"
                         % show(e), fn=D)
    C = ctx.need_fn(R, "<incremental::public::Observer<T> as core::clone::Clone>::clone")
    if C is not None:
        du = DefUse(C)
        good = False
        for s in C.stmts():
            rv = s.rv or {}
            if "agg" in rv and isinstance(rv["agg"], dict) and rv["agg"].get("adt", "").endswith("public::Observer"):
                names = rv["agg"]["fields"]
                if "sentinel" not in names:
                    ctx.site(R, C, "clone: Observer has no sentinel field")
                    continue
                e = expr(C, rv["ops"][names.index("sentinel")], du)
                ctx.site(R, C, "clone: sentinel <- %s" % show(e))
                if e[0] == "call" and e[1].endswith("Clone::clone") and mentions(
                        e, lambda x: x[0] == "field" and x[2][-1] == "sentinel"):
                    good = True
                # Clone::clone is transparent in expr(): accept the field itself
                if e[0] == "field" and e[2][-1] == "sentinel":
                    good = True
        if good:
            ctx.ok(R, "clone")
        else:
            ctx.fail(R, "clone", "Observer::clone does not share the sentinel", fn=C)
    N = ctx.need_fn(R, "incremental::public::Observer::<T>::new")
    if N is not None:
        du = DefUse(N)
        good = False
        for s in N.stmts():
            rv = s.rv or {}
            if "agg" in rv and isinstance(rv["agg"], dict) and rv["agg"].get("adt", "").endswith("public::Observer"):
                names = rv["agg"]["fields"]
                if "sentinel" not in names:
                    ctx.site(R, N, "new: Observer has no sentinel field")
                    continue
                e = expr(N, rv["ops"][names.index("sentinel")], du)
                ctx.site(R, N, "new: sentinel <- %s" % show(e))
                if e[0] == "call" and e[1].endswith("Rc::new"):
                    good = True
        if good:
            ctx.ok(R, "new")
        else:
            ctx.fail(R, "new", "Observer::new does not allocate a fresh sentinel", fn=N)
    # all constructions of public::Observer are in new / clone
    for F in prog.fns.values():
        if F.crate != "incremental":
            continue
        for s in F.stmts():
            rv = s.rv or {}
            if "agg" in rv and isinstance(rv["agg"], dict) and rv["agg"].get("adt", "").endswith("public::Observer"):
                if F.path not in ("incremental::public::Observer::<T>::new",
                                  "<incremental::public::Observer<T> as core::clone::Clone>::clone"):
                    ctx.fail(R, "ctor:" + F.short, "an Observer handle is built outside new()/clone()", fn=F, span=s.span)


def cfw_token(ctx, prog):
    R = "C10.CFW-token"
    ctx.rule(R, "compile-fail witness: SubscriptionToken cannot be constructed outside the crate (E0423/E0603), its "
                "twin obtains one from subscribe() and compiles")
    from .witness import run_witnesses
    run_witnesses(ctx, R, ("token_forge", "token_fields_private", "observer_state_private"))
    # structural side: the fields are private and the only constructor is crate-private
    a = prog.adts.get("incremental::internal_observer::SubscriptionToken")
    if a is None:
        ctx.missing(R, "SubscriptionToken")
        return
    vis = [f["vis"] for f in a["variants"][0]["fields"]]
    ctx.site(R, "SubscriptionToken", "field visibilities %s" % vis)
    if all(v.startswith("restricted") or v == "pub(crate)" for v in vis):
        ctx.ok(R, "fields-private")
    else:
        ctx.fail(R, "fields-private", "SubscriptionToken has a public field: tokens can be forged", fn=None,
                 span=a.get("span"))


cfw_token.configs = ("dbg",)

for _f, _id in ((ts_transitions, "C10.TS-transitions"), (dtab_api, "C10.DTAB-api"),
                (guard_sentinel, "C10.GUARD-sentinel"), (cfw_token, "C10.CFW-token")):
    _f.rule_id = _id

def every_new_observer(ctx, prog):
    """add_new_observers / unlink_disallowed_observers process every queued observer: a dead weak entry is skipped,
    it does not end the walk (otherwise an observer created before a dropped one stays Created for another round).
    Same scan as C11.WMC-truncating, reported here for the observer queues."""
    from .c11 import wmc_loop_exit_on_dead, _wmc_truncating_adaptors
    R = "C10.WMC-truncating"
    ctx.rule(R, "no loop over the observer queues ends on a dead weak entry; no truncating adaptor")
    from .engine import run_relabelled
    run_relabelled(ctx, prog, _wmc_truncating_adaptors, "C11.WMC-truncating", R)
    wmc_loop_exit_on_dead(ctx, prog, R)


every_new_observer.rule_id = "C10.WMC-truncating"

def data_identities(ctx, prog, R="C10.DATA-identities"):
    ctx.rule(R, "identities never repeat: ObserverId::next() takes no argument and counts in a thread-local cell (unique "
                "across all states of the thread: a token of one state's observer is a Mismatch / no-op everywhere else); a "
                "subscription token's ordinal comes from the observer's own next_subscriber cell, which is advanced to the "
                "successor at every subscribe (a live subscription's token is never issued again)")
    N = ctx.need_fn(R, "incremental::internal_observer::ObserverId::next")
    if N is not None:
        uses_tls = False
        for G in prog.with_closures(N):
            for t in G.calls():
                if q.callee_is(t, "LocalKey::with", "std::thread::local::LocalKey::with", "LocalKey::try_with"):
                    uses_tls = True
        cells = [t for G in prog.with_closures(N) for t in G.calls() if q.callee_is(t, "core::cell::Cell::set")]
        ctx.site(R, N, "args=%d thread_local=%s cell stores=%d" % (N.arg_count, uses_tls, len(cells)))
        if N.arg_count == 0 and uses_tls and cells:
            ctx.ok(R, "observer-id")
        else:
            ctx.fail(R, "observer-id", "ObserverId::next is no longer a thread-wide counter (arguments: %d, thread_local: %s): "
                     "observers of two states on one thread can share an id, so a token is accepted by the wrong observer"
                     % (N.arg_count, uses_tls), fn=N)
    S = ctx.need_fn(R, q.OBS + "subscribe")
    if S is not None:
        du = DefUse(S)
        ins = [t for t in S.calls() if q.callee_is(t, "HashMap::insert")]
        sets = [a for a in writes_of(prog, "incremental::internal_observer::InternalObserver.next_subscriber")
                if a.fn.path == S.path and a.kind == "set"]
        good = False
        why = "no insert / no next_subscriber store"
        if ins and sets:
            key = expr(S, ins[0].args[1], du)
            nxt = expr(S, sets[0].site.args[1], du)
            from_cell = key[0] == "call" and key[1].endswith("Cell::get") and mentions(
                key, lambda x: x[0] == "field" and str(x[2][-1]).endswith("next_subscriber"))
            succ = nxt[0] == "call" and nxt[1].endswith("SubscriptionToken::succ") and mentions(nxt, lambda x: x == key)
            ctx.site(R, S, "token = %s; next_subscriber := %s" % (show(key)[:60], show(nxt)[:60]))
            good = from_cell and succ and S.cfg().dominates(sets[0].bb, ins[0].bb) or (from_cell and succ)
            why = "token %s, next %s" % (show(key)[:60], show(nxt)[:60])
        U = prog.fn("incremental::internal_observer::SubscriptionToken::succ")
        if U is None:
            good = False
            why = "SubscriptionToken::succ is gone"
        if good:
            ctx.ok(R, "token")
        else:
            ctx.fail(R, "token", "subscribe does not issue tokens from the observer's monotone counter (%s): after an "
                     "unsubscribe a new subscription can get the token of one that is still live and replace it" % why, fn=S)


data_identities.rule_id = "C10.DATA-identities"

RULES = [ts_transitions, dtab_api, guard_sentinel, cfw_token, pdom_mismatch, every_new_observer, data_identities]

# control signature of the bookkeeping effects this property depends on (rules/ctrlsig.py)
from .ctrlsig import make_rule as _ctrl_rule  # noqa: E402
RULES.append(_ctrl_rule("C10"))
