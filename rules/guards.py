"""RefCell guard live ranges and overlap detection (rule template RCB)."""
from .cfg import DefUse, origins
from .effects import resolve_fields
from . import q

NODE_GETTERS = (
    "incremental::node::Node::parent_child_indices",
    "<incremental::node::Node as incremental::node::ErasedNode>::parent_child_indices",
    "<incremental::node::Node as incremental::node::ErasedNode>::erased",
    "incremental::node::Node::as_parent_dyn_ref",
    "<incremental::node::Node as incremental::node::ErasedNode>::num_on_update_handlers",
    "<incremental::node::Node as incremental::node::ErasedNode>::force_necessary",
)


class Guard:
    def __init__(self, fn, call, field, mutable, base):
        self.fn, self.call, self.field, self.mutable, self.base = fn, call, field, mutable, base
        self.local = call.dst.local if call.dst is not None and call.dst.is_local() else None
        self._live = None

    def live_blocks(self):
        """Blocks (after the borrow) in which the guard may still be alive on a normal path."""
        if self._live is None:
            F = self.fn
            c = F.cfg()
            drops = set()
            alias = {self.local}
            # follow whole-local moves of the guard
            changed = True
            while changed:
                changed = False
                for s in F.stmts():
                    rv = s.rv or {}
                    if s.dst is not None and s.dst.is_local() and "use" in rv:
                        from .facts import op_place
                        p = op_place(rv["use"])
                        if p is not None and p.is_local() and p.local in alias and "move" in rv["use"] \
                                and s.dst.local not in alias:
                            alias.add(s.dst.local)
                            changed = True
            for t in F.terms():
                if t.kind == "drop" and t.j["place"]["local"] in alias and not t.j["place"]["proj"]:
                    drops.add(t.bb)
                # drop(guard) as an explicit call: core::mem::drop(move _g)
                if t.is_call and q.callee_is(t, "core::mem::drop"):
                    p = t.arg_place(0)
                    if p is not None and p.is_local() and p.local in alias:
                        drops.add(t.bb)
            start = self.call.target
            if start is None:
                self._live = set()
            else:
                live = c.reach({start}, avoid=drops)
                self._live = live
            self.drops = drops
        return self._live

    def __repr__(self):
        return "%s(%s) of %s @bb%d" % ("RefMut" if self.mutable else "Ref", self.field.rsplit(".", 1)[-1],
                                       self.base, self.call.bb)


def base_desc(fn, place, du):
    os_ = origins(fn, place, du, extra_pass=NODE_GETTERS)
    roots = sorted({_desc(o) for o in os_ if o.kind != "via"})
    return "|".join(roots) if roots else "?"


def _desc(o):
    # drop the trailing borrowed field itself: identify the *object*
    fields = [f.rsplit(".", 1)[-1] for f in o.fields]
    if o.kind == "arg":
        return "arg%s%s" % (o.what, "".join("." + f for f in fields[:-1]) if fields else "")
    if o.kind == "upvar":
        return "upvar(%s)%s" % (o.what, "".join("." + f for f in fields[:-1]))
    if o.kind == "call":
        return "call(%s)" % q.strip_generics(str(o.what)).rsplit("::", 1)[-1]
    return "%s(%s)" % (o.kind, str(o.what)[:30])


def guards_in(prog, F):
    du = DefUse(F)
    out = []
    for t in F.calls():
        mut = q.callee_is(t, "core::cell::RefCell::borrow_mut", "core::cell::RefCell::try_borrow_mut")
        shr = q.callee_is(t, "core::cell::RefCell::borrow", "core::cell::RefCell::try_borrow")
        if not (mut or shr):
            continue
        p = t.arg_place(0)
        if p is None:
            continue
        fields = resolve_fields(prog, F, p, du)
        if not fields:
            fields = {"?" + F.local_ty(p.local)}
        base = base_desc(F, p, du)
        for f in fields:
            g = Guard(F, t, f, mut, base)
            g.cell_ty = F.local_ty(p.local)
            out.append(g)
    return out


def overlapping_pairs(prog, F):
    gs = guards_in(prog, F)
    out = []
    for i, a in enumerate(gs):
        for b in gs[i + 1:]:
            if a.field != b.field or not (a.mutable or b.mutable):
                continue
            if getattr(a, "cell_ty", None) != getattr(b, "cell_ty", None):
                # nested cells (a RefCell stored inside a collection that lives in a RefCell field)
                continue
            if a.call.bb == b.call.bb:
                continue
            if b.call.bb in a.live_blocks() or a.call.bb in b.live_blocks():
                out.append((a, b))
    return out
