"""C02 — glitch-freedom (structural clauses)."""
from . import q
from .cfg import DefUse
from .colls import coll_ops
from .effects import writes_of, accesses_of
from .expr import expr, show, mentions
from .pdom import unexcused_path

EXPLANATION = (
    "Decided clause of C02: a node is recomputed outside heap order (direct recomputation of the first "
    "parent) only when parent_iter_can_recompute_now returns true, and every path that returns true passes "
    "a branch on a value obtained from a RecomputeHeap query; the recompute heap's lower bound is lowered "
    "on every insertion below it and queue membership changes only through link/unlink; remove_min is the "
    "only pop and scans upward from the lower bound; every new edge (add_parent_without_adjusting_heights) "
    "is followed by a height repair (adjust_heights under child.height >= parent.height, or the "
    "became_necessary max-height loop followed by set_height), and adjust_heights re-links queued nodes.")
NOT_DECIDED = ("That each node function runs at most once per stabilise and sees final inputs on every "
               "history (runtime counts and values).")
ASSUMPTIONS = ["heights are changed only through AdjustHeightsHeap::set_height (C11.WMW-markers)"]


def guard_bypass(ctx, prog, R="C02.GUARD-bypass"):
    ctx.rule(R, "every path on which parent_iter_can_recompute_now returns true is control-dependent on a "
                "comparison with a RecomputeHeap query (a chain of single-child nodes can reach above a pending "
                "lower node, so child.height > scope.height alone does not make the parent safe to run)")
    F = ctx.need_fn(R, q.NODE_IMPL + "parent_iter_can_recompute_now")
    if F is None:
        return
    du = DefUse(F)
    c = F.cfg()
    trues = [s for s in F.stmts() if s.dst is not None and s.dst.is_local() and s.dst.local == 0
             and s.rv and "use" in s.rv and q.op_const(s.rv["use"]) is not None
             and q.op_const(s.rv["use"]).get("int") == 1]
    nonconst = [s for s in F.stmts() if s.dst is not None and s.dst.is_local() and s.dst.local == 0
                and not (s.rv and "use" in s.rv and q.op_const(s.rv["use"]) is not None)]
    heap_sw = set()
    admit = set()   # edges taken exactly when a height is <= the heap's minimum
    is_heap = lambda x: x[0] == "call" and "recompute_heap::RecomputeHeap::" in x[1]
    for b in F.blocks:
        t = b["term"]
        if t["k"] != "switch":
            continue
        e = expr(F, t["on"], du)
        neg = False
        while e[0] == "un" and e[1] == "Not":
            e, neg = e[2], not neg
        if not mentions(e, is_heap):
            continue
        heap_sw.add(b["id"])
        if e[0] != "bin":
            continue
        op, a, bb_ = e[1], e[2], e[3]
        right = mentions(bb_, is_heap) and not mentions(a, is_heap)
        left = mentions(a, is_heap) and not mentions(bb_, is_heap)
        # `h <= min` / `h < min` / `min >= h` / `min > h` admit on true; the reversed forms admit on false
        if (right and op in ("Le", "Lt")) or (left and op in ("Ge", "Gt")):
            on_true = True
        elif (right and op in ("Gt", "Ge")) or (left and op in ("Lt", "Le")):
            on_true = False
        else:
            continue
        if neg:
            on_true = not on_true
        for x in c.succ[b["id"]]:
            is_false_edge = c.edge_values(b["id"], x) == [0]
            if is_false_edge != on_true:
                admit.add((b["id"], x))
    ctx.site(R, F, "heap-consulting switches %s, admitting edges %s" % (sorted(heap_sw), sorted(admit)))
    if nonconst:
        ctx.fail(R, "shape", "parent_iter_can_recompute_now returns a computed value; the rule expects constant "
                 "true/false returns", fn=F, span=nonconst[0].span, kind="anchor")
        return
    if not trues:
        ctx.missing(R, "`true` return in parent_iter_can_recompute_now")
        return
    okall = True
    for s in trues:
        ctx.site(R, F, "bb%d return true" % s.bb)
        p = c.path([0], [s.bb], avoid_edges=admit)
        if p is not None:
            okall = False
            ctx.fail(R, "true-path", "parent_iter_can_recompute_now returns true on a path that never finds a height "
                     "<= the recompute heap's minimum: the parent is recomputed immediately although a lower node "
                     "(e.g. the bind change detector that will invalidate it) may still be pending", fn=F, span=s.span,
                     path=q.fmt_path(F, p))
    if okall:
        ctx.ok(R, "true-path")
    # who consumes the verdict
    for t in prog.callers(F):
        ctx.site(R, t.fn, "bb%d caller" % t.bb)
        if t.fn.path != q.NODE + "maybe_change_value_manual":
            ctx.fail(R, "caller:" + t.fn.short, "parent_iter_can_recompute_now called from an unlisted function",
                     fn=t.fn, span=t.span)
    # recompute_one is only driven by Node::recompute (loop over the returned parent)
    RO = prog.fn(q.NODE_IMPL + "recompute_one")
    if RO is None:
        ctx.missing(R, "recompute_one")
    else:
        for t in prog.callers(RO):
            ctx.site(R, t.fn, "bb%d call recompute_one" % t.bb)
            if t.fn.path != q.NODE_IMPL + "recompute":
                ctx.fail(R, "direct:" + t.fn.short, "recompute_one called from outside Node::recompute", fn=t.fn,
                         span=t.span)
            else:
                ctx.ok(R, "direct:recompute")


def wmc_link(ctx, prog):
    R = "C02.WMC-link"
    ctx.rule(R, "queue membership: push only in link, pop only in remove_min, swap_remove only in unlink; "
                "insert lowers height_lower_bound before linking a lower node; remove_min indexes by the bound "
                "and raises it only past empty buckets")
    n = 0
    table = {"push_back": q.RCH + "link", "pop_front": q.RCH + "remove_min", "swap_remove_back": q.RCH + "unlink"}
    for F in prog.fns.values():
        if F.impl_self_adt != "incremental::recompute_heap::RecomputeHeap":
            continue
        for o in coll_ops(prog, F):
            m = o.method.rsplit("::", 1)[-1]
            if "VecDeque" not in o.method or m == "clear":
                continue
            n += 1
            ctx.site(R, F, "bb%d %s" % (o.bb, m))
            want = table.get(m)
            if want is None or F.root != want:
                ctx.fail(R, "queue-op:%s:%s" % (m, F.short), "queue operation %s outside its owner" % m, fn=F,
                         span=o.span)
            else:
                ctx.ok(R, "queue-op:" + m)
    INS = ctx.need_fn(R, q.RCH + "insert")
    if INS is not None:
        du = DefUse(INS)
        c = INS.cfg()
        links = q.calls_in(INS, "RecomputeHeap::link")
        sets = [a for a in writes_of(prog, "incremental::recompute_heap::RecomputeHeap.height_lower_bound")
                if a.fn.path == INS.path]
        sw = None
        for b in INS.blocks:
            t = b["term"]
            if t["k"] == "switch":
                e = expr(INS, t["on"], du)
                if e[0] == "bin" and e[1] == "Lt" and mentions(e[2], lambda x: x[0] == "call" and x[1].endswith("::height")) \
                        and mentions(e[3], lambda x: x[0] == "field" and x[2][-1] == "height_lower_bound"):
                    sw = b["id"]
        n += len(links) + len(sets)
        ctx.site(R, INS, "bound test bb%s, stores %s, link %s" % (sw, [a.bb for a in sets], [t.bb for t in links]))
        if sw is None or not sets or not links:
            ctx.fail(R, "insert:bound", "insert must compare node.height() with height_lower_bound and lower the "
                     "bound before link", fn=INS)
        else:
            ve = expr(INS, sets[0].site.args[1], du) if sets[0].kind == "set" else ("?",)
            false_edges = {(sw, x) for x in c.succ[sw] if c.edge_values(sw, x) == [0]}
            p = c.path([0], [links[0].bb], avoid={a.bb for a in sets}, avoid_edges=false_edges)
            if p is not None:
                ctx.fail(R, "insert:bound", "a path links a node below height_lower_bound without lowering the "
                         "bound: remove_min would skip it", fn=INS, path=q.fmt_path(INS, p))
            elif not mentions(ve, lambda x: x[0] == "call" and x[1].endswith("::height")):
                ctx.fail(R, "insert:bound", "height_lower_bound is set to %s, expected node.height()" % show(ve), fn=INS)
            else:
                ctx.ok(R, "insert:bound")
    RM = ctx.need_fn(R, q.RCH + "remove_min")
    if RM is not None:
        du = DefUse(RM)
        c = RM.cfg()
        incs = [a for a in writes_of(prog, "incremental::recompute_heap::RecomputeHeap.height_lower_bound")
                if a.fn.path == RM.path]
        n += len(incs)
        # the increment sits in a loop and is guarded by is_empty() of the bucket
        good = bool(incs)
        for a in incs:
            ctx.site(R, RM, "bb%d height_lower_bound %s" % (a.bb, a.kind))
            if a.kind != "increment" or not c.in_loop(a.bb):
                good = False
            g = q.guarded_by_call(prog, RM, a.bb, ("VecDeque::is_empty", "is_empty"), du)
            if not g:
                good = False
        # the bucket is indexed by the bound
        gets = [t for t in RM.calls() if q.callee_is(t, "core::slice::get", "slice::<impl [T]>::get", "::get")
                and "usize" in "".join(t.generics + [""]) or q.callee_is(t, "core::slice::get")]
        idx_ok = False
        for t in RM.calls():
            if t.callee and t.callee.endswith("::get") and len(t.args) == 2:
                e = expr(RM, t.args[1], du)
                if mentions(e, lambda x: x[0] == "field" and x[2][-1] == "height_lower_bound"):
                    idx_ok = True
        if good and idx_ok:
            ctx.ok(R, "remove_min:scan")
        else:
            ctx.fail(R, "remove_min:scan", "remove_min must index buckets by height_lower_bound and raise the bound "
                     "only past empty buckets (inc ok=%s, index ok=%s)" % (good, idx_ok), fn=RM)
    # writers of the bound
    allowed = {q.RCH + "insert", q.RCH + "remove_min", q.RCH + "raise_min_height", q.RCH + "clear",
               q.RCH + "set_max_height_allowed"}
    for a in writes_of(prog, "incremental::recompute_heap::RecomputeHeap.height_lower_bound"):
        n += 1
        ctx.site(R, a.fn, "bb%d bound %s" % (a.bb, a.kind))
        if a.fn.root not in allowed:
            ctx.fail(R, "bound-writer:" + a.fn.short, "height_lower_bound written outside the heap", fn=a.fn, span=a.span)
    ctx.floor(R, n, 10)


def pdom_height(ctx, prog):
    R = "C02.PDOM-height"
    ctx.rule(R, "every add_parent_without_adjusting_heights is followed by a height repair; adjust_heights "
                "re-links nodes that sit in the recompute heap")
    n = 0
    AP = prog.fn(q.NODE_IMPL + "add_parent_without_adjusting_heights")
    if AP is None:
        ctx.missing(R, "add_parent_without_adjusting_heights")
        return
    for t in prog.callers(AP):
        F = t.fn
        n += 1
        ctx.site(R, F, "bb%d add_parent_without_adjusting_heights" % t.bb)
        du = DefUse(F)
        c = F.cfg()
        if F.path == q.NODE_IMPL + "state_add_parent":
            sinks = {x.bb for x in q.calls_in(F, "AdjustHeightsHeap::adjust_heights")}
            # excused: false edge of Ge(self.height(), parent.height())
            ex = set()
            for b in F.blocks:
                tt = b["term"]
                if tt["k"] == "switch":
                    e = expr(F, tt["on"], du)
                    if e[0] == "bin" and e[1] == "Ge" and all(
                            mentions(x, lambda y: y[0] == "call" and y[1].endswith("::height")) for x in (e[2], e[3])):
                        hs = [x for x in (e[2], e[3])]
                        # left operand = child (arg1), right = parent (arg3)
                        if mentions(hs[0], lambda y: y == ("arg", 1)) and mentions(hs[1], lambda y: y == ("arg", 3)):
                            for x in c.succ[b["id"]]:
                                if c.edge_values(b["id"], x) == [0]:
                                    ex.add((b["id"], x))
            p = c.path(c.succ[t.bb], c.exits, avoid=sinks, avoid_edges=ex) if sinks else [t.bb]
            if p is not None:
                ctx.fail(R, "repair:state_add_parent", "after linking a parent, a path ends without adjust_heights "
                         "although child.height >= parent.height is possible", fn=F, path=q.fmt_path(F, p))
            else:
                ctx.ok(R, "repair:state_add_parent")
        elif F.root == q.NODE_IMPL + "became_necessary":
            # closure: after the call, `h` is raised when child.height() >= h
            sets = [x for x in F.calls() if q.callee_is(x, "core::cell::Cell::set")]
            good = False
            for s in sets:
                e = expr(F, s.args[1], du)
                if e[0] == "bin" and e[1] == "Add" and e[3] == ("const", 1) and mentions(
                        e[2], lambda y: y[0] == "call" and y[1].endswith("::height")):
                    g = [sw for sw, can in c.controlling_switches(s.bb)
                         if (lambda ee: ee[0] == "bin" and ee[1] == "Ge")(expr(F, F.blocks[sw]["term"]["on"], du))]
                    if g and c.dominates(t.bb, s.bb):
                        good = True
            # the same accumulator written as a `let mut h` captured by reference: `*h = child.height() + 1`
            for st in F.stmts():
                if good or st.dst is None or F.is_cleanup(st.bb):
                    continue
                via_upvar = any("upvar#" in f for f in st.dst.fields())
                if not via_upvar and st.dst.proj == ["deref"]:
                    from .facts import Place as _P
                    base = expr(F, _P({"local": st.dst.local, "proj": []}), du)
                    via_upvar = base[0] == "field" and any("upvar#" in str(f) for f in base[2])
                if not via_upvar:
                    continue
                rv = st.rv or {}
                if "use" in rv:
                    e = expr(F, rv["use"], du)
                elif "bin" in rv:
                    e = ("bin", rv["bin"][0], expr(F, rv["bin"][1], du), expr(F, rv["bin"][2], du))
                else:
                    continue
                if e[0] == "field" and e[2] == ("0",):      # checked add: (value, overflow flag).0
                    e = e[1]
                if e[0] == "bin" and e[1] in ("Add", "AddWithOverflow") and e[3] == ("const", 1) and mentions(
                        e[2], lambda y: y[0] == "call" and y[1].endswith("::height")):
                    g = [sw for sw, can in c.controlling_switches(st.bb)
                         if (lambda ee: ee[0] == "bin" and ee[1] == "Ge")(expr(F, F.blocks[sw]["term"]["on"], du))]
                    if g and c.dominates(t.bb, st.bb):
                        good = True
            root = prog.fn(F.root)
            sh = q.calls_in(root, "State::set_height")
            fc = q.calls_in(root, "ErasedNode>::foreach_child")
            good2 = bool(sh) and bool(fc) and any(
                root.cfg().dominates(fc[0].bb, s.bb) and root.cfg().postdominates(s.bb, fc[0].bb) for s in sh)
            n += len(sh)
            if good and good2:
                ctx.ok(R, "repair:became_necessary")
            else:
                ctx.fail(R, "repair:became_necessary", "became_necessary must raise its height above every child it "
                         "links (max loop ok=%s, final set_height ok=%s)" % (good, good2), fn=F)
        else:
            ctx.fail(R, "caller:" + F.short, "add_parent_without_adjusting_heights called from an unlisted function",
                     fn=F, span=t.span)
    AH = ctx.need_fn(R, q.AHH + "adjust_heights")
    if AH is not None:
        ih = q.calls_in(AH, "RecomputeHeap::increase_height")
        n += len(ih)
        good = False
        for t in ih:
            ctx.site(R, AH, "bb%d increase_height" % t.bb)
            g = q.guarded_by_call(prog, AH, t.bb, ("ErasedNode>::is_in_recompute_heap", "is_in_recompute_heap"))
            if g and AH.cfg().in_loop(t.bb):
                good = True
        if good:
            ctx.ok(R, "relink")
        else:
            ctx.fail(R, "relink", "adjust_heights must call increase_height for every popped node that is in the "
                     "recompute heap", fn=AH)
        # it visits parents and bind-created nodes of every popped node
        for name in ("ensure_parent_height_requirements", "adjust_heights_bind_lhs_change"):
            cs = q.calls_in(AH, name)
            n += len(cs)
            if not cs or not all(AH.cfg().in_loop(t.bb) for t in cs):
                ctx.fail(R, "visit:" + name, "adjust_heights no longer calls %s for every popped node" % name, fn=AH)
            else:
                ctx.ok(R, "visit:" + name)
    ctx.floor(R, n, 6)


def data_edge_ends(ctx, prog):
    R = "C02.DATA-edge-ends"
    ctx.rule(R, "every ensure_height_requirement(oc, op, child, parent) call names the right ends: child = the node "
                "being processed (self), parent = an element of self.parents, resp. a node created on the rhs of the "
                "bind whose lhs-change node self is; adjust_heights starts with (original child, original parent)")
    sites = prog.calls_to(r"AdjustHeightsHeap::ensure_height_requirement$")
    n = 0
    for t in sites:
        F = t.fn
        du = DefUse(F)
        a = [expr(F, x, du) for x in t.args]
        if len(a) < 5:
            continue
        n += 1
        child, parent = show(a[3]), show(a[4])
        ctx.site(R, F, "ensure_height_requirement(.., child=%s, parent=%s)" % (child[:60], parent[:80]))
        root = q.strip_generics(F.root)
        is_self = lambda e: e[0] == "call" and e[1].endswith("::packed") and len(e[2]) == 1 and (
            e[2][0] == ("arg", 1) or (e[2][0][0] == "field" and e[2][0][1] == ("arg", 1) and "self" in str(e[2][0][2][-1])))
        if root == q.strip_generics(q.AHH + "adjust_heights"):
            good = a[3] == a[1] and a[4] == a[2] and a[3] != a[4]
            want = "(original_child, original_parent)"
        elif root == q.strip_generics(q.NODE_IMPL + "ensure_parent_height_requirements"):
            good = is_self(a[3]) and mentions(a[4], lambda x: x[0] == "field" and str(x[2][-1]).endswith("parents")) and \
                not mentions(a[4], lambda x: x[0] == "field" and "created_on_rhs" in str(x[2][-1]))
            want = "(self, element of self.parents)"
        elif root == q.strip_generics(q.NODE_IMPL + "adjust_heights_bind_lhs_change"):
            good = is_self(a[3]) and mentions(a[4], lambda x: x[0] == "field" and "all_nodes_created_on_rhs" in str(x[2][-1]))
            want = "(self = the lhs-change node, node created on the bind's rhs)"
        else:
            ctx.fail(R, "site:" + F.short, "ensure_height_requirement is called from an unlisted function", fn=F, span=t.span,
                     kind="anchor")
            continue
        if good:
            ctx.ok(R, "ends:" + q.short_path(root))
        else:
            ctx.fail(R, "ends:" + q.short_path(root), "the edge checked is (child=%s, parent=%s), specified %s: nodes are "
                     "raised relative to the wrong node, so a node created in a bind can end up at or below the "
                     "bind's lhs-change node" % (child[:70], parent[:70], want), fn=F, span=t.span)
    ctx.floor(R, n, 3)


data_edge_ends.rule_id = "C02.DATA-edge-ends"


LENGTH_PRESERVING = ("::iter", "::iter_mut", "::into_iter", "::borrow", "::borrow_mut", "::deref", "::deref_mut",
                     "::as_slice", "::as_ref", "::enumerate", "::map", "::by_ref", "::cloned", "::copied", "::rev")


def guard_every_rhs_node(ctx, prog, R="C02.GUARD-every-rhs-node"):
    ctx.rule(R, "adjust_heights_bind_lhs_change visits EVERY node created on the bind's rhs: the walk over "
                "all_nodes_created_on_rhs uses no truncating adaptor (map_while / take_while / take / skip / step_by / "
                "find), and in every iteration the only ways past ensure_height_requirement are a dead weak entry or "
                "an unnecessary node")
    from .loops import elem_loops, uncovered_iteration
    from .expr import walk
    root = ctx.need_fn(R, q.NODE_IMPL + "adjust_heights_bind_lhs_change")
    if root is None:
        return
    found = False
    for F in prog.with_closures(root):
        sinks = {t.bb for t in q.calls_in(F, "AdjustHeightsHeap::ensure_height_requirement")}
        if not sinks:
            continue
        du = DefUse(F)
        for L in elem_loops(F, du):
            src = expr(F, L.advance_call.args[0], du)
            if not mentions(src, lambda x: x[0] == "field" and "all_nodes_created_on_rhs" in str(x[2][-1])):
                continue
            found = True
            bad = sorted({x[1].rsplit("::", 1)[-1] for x in walk(src) if x[0] == "call" and not x[1].endswith(LENGTH_PRESERVING)
                          and not (x[1].endswith("::filter_map") and "upgrade" in show(x))})
            ctx.site(R, F, "loop over %s" % show(src)[:100])
            p = uncovered_iteration(F, L, sinks, {"Weak::upgrade": 0, "ErasedNode>::is_necessary": 0}, du)
            if bad:
                ctx.fail(R, "walk", "the walk over all_nodes_created_on_rhs goes through %s, which can end before the "
                         "last element: live rhs nodes after a dropped one are not raised above the lhs-change node"
                         % ", ".join(bad), fn=F, span=L.advance_call.span)
            elif p is not None:
                ctx.fail(R, "walk", "an iteration can skip ensure_height_requirement for a live, necessary rhs node",
                         fn=F, path=q.fmt_path(F, p))
            else:
                ctx.ok(R, "walk")
    if not found:
        ctx.missing(R, "loop over all_nodes_created_on_rhs in adjust_heights_bind_lhs_change")


guard_every_rhs_node.rule_id = "C02.GUARD-every-rhs-node"


def ensure_raise(ctx, prog):
    R = "C02.PDOM-raise"
    ctx.rule(R, "ensure_height_requirement raises the parent to child.height + 1 on EVERY violated edge "
                "(child.height >= parent.height), whether or not the parent is already queued for adjustment")
    F = ctx.need_fn(R, q.AHH + "ensure_height_requirement")
    if F is None:
        return
    du = DefUse(F)
    c = F.cfg()
    sets = q.calls_in(F, "AdjustHeightsHeap::set_height")
    adds = q.calls_in(F, "AdjustHeightsHeap::add_unless_mem")
    sw = None
    inverted = False
    is_h = lambda e_, n_: mentions(e_, lambda x: x[0] == "call" and x[1].endswith("::height") and mentions(x, lambda y: y == ("arg", n_)))
    for b in F.blocks:
        t = b["term"]
        if t["k"] == "switch":
            e = expr(F, t["on"], du)
            neg = False
            while e[0] == "un" and e[1] == "Not":
                e, neg = e[2], not neg
            if e[0] != "bin":
                continue
            # child.height() >= parent.height()  ==  parent.height() <= child.height()  ==  !(child.height() < parent.height())
            if (e[1] == "Ge" and is_h(e[2], 4) and is_h(e[3], 5)) or (e[1] == "Le" and is_h(e[2], 5) and is_h(e[3], 4)):
                sw, inverted = b["id"], neg
            elif (e[1] == "Lt" and is_h(e[2], 4) and is_h(e[3], 5)) or (e[1] == "Gt" and is_h(e[2], 5) and is_h(e[3], 4)):
                sw, inverted = b["id"], not neg
    ctx.site(R, F, "violation test bb%s; set_height %s; add_unless_mem %s" % (sw, [t.bb for t in sets], [t.bb for t in adds]))
    if sw is None or not sets or not adds:
        ctx.fail(R, "shape", "ensure_height_requirement: expected `child.height() >= parent.height()` guarding "
                 "add_unless_mem and set_height", fn=F, kind="anchor")
        return
    true_t = [x for x in c.succ[sw] if (0 not in c.edge_values(sw, x)) != inverted]      # edges on which the edge is violated
    for name, sites in (("set_height", sets), ("add_unless_mem", adds)):
        p = c.path(true_t, c.exits, avoid={t.bb for t in sites})
        if p is not None:
            ctx.fail(R, "raise:" + name, "on a violated edge a path skips %s: a parent that is already queued is not raised "
                     "above a second, taller child, ends up at the same height as a child and is recomputed before it "
                     "(glitch)" % name, fn=F, path=q.fmt_path(F, [sw] + p))
        else:
            ctx.ok(R, "raise:" + name)
    e = expr(F, sets[0].args[2], du)
    good = e[0] == "bin" and e[1] == "Add" and e[3] == ("const", 1) and mentions(
        e[2], lambda x: x[0] == "call" and x[1].endswith("::height") and mentions(x, lambda y: y == ("arg", 4)))
    tgt = expr(F, sets[0].args[1], du)
    if good and tgt == ("arg", 5):
        ctx.ok(R, "raise:value")
    else:
        ctx.fail(R, "raise:value", "set_height(%s, %s): expected (parent, child.height() + 1)" % (show(tgt), show(e)), fn=F)
    # the queue entry is made before the height changes (pre-adjusted height is the bucket)
    if c.dominates(adds[0].bb, sets[0].bb):
        ctx.ok(R, "raise:order")
    else:
        ctx.fail(R, "raise:order", "the parent's height is changed before it is queued with its old height", fn=F)


SPEC_CAN_RECOMPUTE = {
    # kind -> (operator, left operand, right operand) of can_recompute_now, from the upstream algorithm
    "BindLhsChange": ("Gt", "height(arg2)", "height(arg1.created_in)"),
    "Map": ("Gt", "height(arg2)", "height(arg1.created_in)"),
    "MapRef": ("Gt", "height(arg2)", "height(arg1.created_in)"),
    "MapWithOld": ("Gt", "height(arg2)", "height(arg1.created_in)"),
    "BindMain": ("Gt", "height(arg2)", "height(kind(arg1).0.lhs_change)"),
    "ArrayFold": "false", "Map2": "false", "Map3": "false", "Map4": "false", "Map5": "false", "Map6": "false",
    "Expert": "false", "Constant": "panic", "Var": "panic",
}


def dtab_can_recompute(ctx, prog, R="C02.DTAB-can-recompute"):
    ctx.rule(R, "per parent kind, can_recompute_now is the specified strict comparison: child.height > scope height "
                "(single-child kinds), child.height > lhs_change.height (BindMain), false for multi-child kinds")
    F = ctx.need_fn(R, q.NODE_IMPL + "parent_iter_can_recompute_now")
    if F is None:
        return
    du = DefUse(F)
    c = F.cfg()
    # the switch on the parent's kind
    ksw = None
    for b in F.blocks:
        t = b["term"]
        if t["k"] == "switch":
            e = expr(F, t["on"], du)
            if e[0] == "discr" and e[1][0] == "field" and e[1][1][0] == "call" and e[1][1][1].endswith("Node::kind"):
                ksw = b["id"]
                break
    locs = F.local_named("can_recompute_now")
    if ksw is None or len(locs) != 1:
        ctx.fail(R, "shape", "cannot find the kind switch / the can_recompute_now variable", fn=F, kind="anchor")
        return
    flag = locs[0]
    got = {}
    t = F.blocks[ksw]["term"]
    dom = __import__("rules.dtab", fromlist=["x"]).enum_domain(prog, "incremental::kind::Kind")
    listed = {v for v, _ in t["targets"]}
    for val, name in dom.items():
        tgt = dict((v, b) for v, b in t["targets"]).get(val, t["otherwise"])
        # walk forward from the arm until the variable is assigned or the arm diverges
        seen = set()
        work = [tgt]
        res = None
        while work and res is None:
            bb = work.pop()
            if bb in seen:
                continue
            seen.add(bb)
            for st in F.block_stmts(bb):
                if st.dst is not None and st.dst.is_local() and st.dst.local == flag:
                    rv = st.rv or {}
                    if "bin" in rv:
                        res = (rv["bin"][0], show(expr(F, rv["bin"][1], du)), show(expr(F, rv["bin"][2], du)))
                    elif "use" in rv and q.op_const(rv["use"]) is not None:
                        res = "true" if q.op_const(rv["use"]).get("int") else "false"
                    else:
                        res = ("?", show(expr(F, st.dst, du)), "")
            if res is None:
                if not c.succ[bb]:
                    res = "panic"
                else:
                    work.extend(c.succ[bb])
        got[name] = res
    for name, want in SPEC_CAN_RECOMPUTE.items():
        g = got.get(name)
        ctx.site(R, F, "%s -> %s" % (name, g))
        if g == want:
            ctx.ok(R, "kind:" + name)
        else:
            ctx.fail(R, "kind:" + name, "can_recompute_now for a %s parent is %s, specified %s: with a non-strict comparison a "
                     "node created in a bind can be recomputed directly while the bind's change detector (same height as "
                     "the child) is still pending" % (name, g, want), fn=F)
    for name in got:
        if name not in SPEC_CAN_RECOMPUTE:
            ctx.fail(R, "kind:" + name, "new Kind %s has no direct-recompute rule" % name, fn=F, kind="anchor")


for _f, _id in ((guard_bypass, "C02.GUARD-bypass"), (wmc_link, "C02.WMC-link"), (pdom_height, "C02.PDOM-height"),
                (ensure_raise, "C02.PDOM-raise"), (dtab_can_recompute, "C02.DTAB-can-recompute")):
    _f.rule_id = _id

def dtab_scope(ctx, prog):
    """created_in.height() is what became_necessary / invalidate_node / the shortcut guard place nodes above:
    it must be the lhs-change node's height (shared with C03)."""
    from .c03 import dtab_scope as f
    f(ctx, prog, "C02.DTAB-scope")


dtab_scope.rule_id = "C02.DTAB-scope"

def pdom_sched_order(ctx, prog):
    """Glitch freedom needs the propagation ORDER of maybe_change_value_manual: the other parents are queued first,
    and only then is the first parent considered for the recompute-now shortcut (whose `height <= min_height` test
    reads the heap those parents were just put into). Same rule as C01.PDOM-sched."""
    from .engine import run_relabelled
    from .c01 import pdom_sched as f
    run_relabelled(ctx, prog, f, "C01.PDOM-sched", "C02.PDOM-sched")


pdom_sched_order.rule_id = "C02.PDOM-sched"

def wmc_scope(ctx, prog):
    """Heights are assigned from the creation scope: within_scope must restore the scope that was current on entry
    (C20.WMC-scope), otherwise nodes built later in a bind closure are attributed to Top and sit below the bind's
    lhs-change node."""
    from .engine import run_relabelled
    from .c20 import wmc_scope as f
    run_relabelled(ctx, prog, f, "C20.WMC-scope", "C02.WMC-scope")


wmc_scope.rule_id = "C02.WMC-scope"

RULES = [guard_bypass, wmc_link, pdom_height, ensure_raise, dtab_can_recompute, dtab_scope, data_edge_ends, guard_every_rhs_node, pdom_sched_order, wmc_scope]

# control signature of the bookkeeping effects this property depends on (rules/ctrlsig.py)
from .ctrlsig import make_rule as _ctrl_rule  # noqa: E402
RULES.append(_ctrl_rule("C02"))
