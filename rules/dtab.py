"""Decision-table extraction (rule template DTAB): conditional constant propagation over finite
discriminant domains. For every full assignment of the tracked symbols the CFG is walked with switches
on tracked operands resolved and every other branch followed both ways; the designated actions met on
the way are recorded. No arithmetic reasoning, no solver, nothing is executed."""
import itertools

from .cfg import DefUse
from .expr import expr, show
from .facts import op_place, Place


class Sym:
    def __init__(self, name, match, domain, kind="discr"):
        """match(expr) -> bool: does this (already discr-stripped) expression denote the symbol?
        domain: dict value -> label. kind: 'discr' (switch on discriminant(x)) or 'bool'."""
        self.name, self.match, self.domain, self.kind = name, match, domain, kind


class Action:
    def __init__(self, name, match, describe=None):
        """match(term) -> bool on call terminators; describe(F, term, du) -> str."""
        self.name, self.match, self.describe = name, match, describe


def _switch_symbol(F, bb, syms, du, cache):
    if bb in cache:
        return cache[bb]
    t = F.blocks[bb]["term"]
    e = expr(F, t["on"], du)
    neg = False
    res = None
    while e[0] == "un" and e[1] == "Not":
        e = e[2]
        neg = not neg
    if e[0] == "discr":
        for s in syms:
            if s.kind == "discr" and s.match(e[1]):
                res = (s, False)
                break
    if res is None:
        for s in syms:
            if s.kind == "bool" and s.match(e):
                res = (s, neg)
                break
    cache[bb] = res
    return res


def table(F, syms, actions, record_returns=True, entry=0, max_nodes=200000):
    """{assignment (tuple of labels, in syms order): frozenset of action tuples}.
    An action tuple ends with ('return', <value>) or ('diverge',)."""
    du = DefUse(F)
    c = F.cfg()
    cache = {}
    out = {}
    doms = [list(s.domain.items()) for s in syms]
    for combo in itertools.product(*doms):
        assign = {s.name: v for s, (v, _) in zip(syms, combo)}
        labels = tuple(l for _, l in combo)
        results = set()
        seen = set()
        # DFS over (block, actions so far)
        stack = [(entry, ())]
        nodes = 0
        while stack:
            bb, acts = stack.pop()
            nodes += 1
            if nodes > max_nodes:
                results.add((("explosion",),))
                break
            if (bb, acts) in seen:
                continue
            seen.add((bb, acts))
            b = F.blocks[bb]
            t = b["term"]
            cur = acts
            if record_returns:
                for s in b["stmts"]:
                    if s["k"] == "assign" and s["dst"]["local"] == 0 and not s["dst"]["proj"]:
                        cur = tuple(a for a in cur if a[0] != "ret") + (("ret", _ret_desc(F, s, du)),)
            if t["k"] == "call":
                tm = F.term(bb)
                for a in actions:
                    if a.match(tm):
                        cur = cur + ((a.name, a.describe(F, tm, du) if a.describe else ""),)
                        break
                if record_returns and t["dst"]["local"] == 0 and not t["dst"]["proj"]:
                    cur = tuple(a for a in cur if a[0] != "ret") + (("ret", "call " + _short_callee(tm)),)
            if t["k"] == "return":
                results.add(cur)
                continue
            succ = c.succ[bb]
            if not succ:
                results.add(cur + (("diverge",),))
                continue
            if t["k"] == "switch" and len(succ) > 1:
                ss = _switch_symbol(F, bb, syms, du, cache)
                if ss is not None:
                    s, neg = ss
                    val = assign[s.name]
                    if s.kind == "bool" and neg:
                        val = 0 if val else 1
                    tgt = None
                    explicit = dict((v, tb) for v, tb in t["targets"])
                    if val in explicit:
                        tgt = explicit[val]
                    else:
                        tgt = t["otherwise"]
                    stack.append((tgt, cur))
                    continue
            for x in succ:
                stack.append((x, cur))
        out[labels] = frozenset(results)
    return out


def _short_callee(tm):
    from .facts import short_path
    c = tm.callee or tm.j.get("callee_ty", "?")
    return short_path(c)


def _ret_desc(F, s, du):
    rv = s["rv"]
    if "agg" in rv and isinstance(rv["agg"], dict) and "adt" in rv["agg"]:
        a = rv["agg"]
        inner = ""
        if rv["ops"]:
            inner = "(" + ", ".join(show(expr(F, o, du)) for o in rv["ops"]) + ")"
        return a["adt"].rsplit("::", 1)[-1] + "::" + a["variant"] + inner
    if "use" in rv:
        return show(expr(F, rv["use"], du))
    return show(expr(F, Place(s["dst"]), du))


def is_field_get(field_suffix):
    """matcher: Cell::get(&x.<field>) / the field place itself."""
    def m(e):
        if e[0] == "call" and e[1].endswith("cell::Cell::get") and e[2]:
            a = e[2][0]
            return a[0] == "field" and a[2][-1] == field_suffix
        if e[0] == "field":
            return e[2][-1] == field_suffix
        return False
    return m


def is_arg(n):
    return lambda e: e == ("arg", n) or (e[0] == "field" and e[1] == ("arg", n) and False)


def enum_domain(prog, adt_path):
    a = prog.adts[adt_path]
    return {v["discr"]: v["name"] for v in a["variants"]}


def summarize(results):
    """frozenset of action tuples -> sorted list of compact strings."""
    out = []
    for r in results:
        out.append(" ; ".join("%s%s" % (a[0], ("(" + a[1] + ")") if len(a) > 1 and a[1] else "") for a in r))
    return sorted(out)
