#!/bin/bash
# Run every property's check (default tier quick) and print one line each.
cd "$(dirname "$0")/.."
tier=${1:-quick}
fail=0
for p in $(python3 -c "import json;[print(json.loads(l)['id']) for l in open('properties.jsonl')]"); do
  if [ -f rules/$(echo $p | tr A-Z a-z).py ]; then
    out=$(./check $p --tier $tier 2>&1); rc=$?
    echo "$p rc=$rc $(echo "$out" | grep -E "^$p (quick|thorough):" | tail -1)"
    [ $rc -ne 0 ] && { fail=1; echo "$out" | grep -B2 VIOLATION | head -20; }
  fi
done
exit $fail
