//! Compile-fail witnesses (rule template CFW). Each witness `X` is a doctest that must FAIL to compile
//! with the given error code, paired with a twin `X_twin` that differs only in the offending construct
//! and must compile. Run with `cargo +nightly test --doc` (error codes are only checked on nightly).
//! The crate under test is named as an external user would name it.

/// C10.CFW-token: a SubscriptionToken cannot be forged outside the crate (private tuple fields).
/// ```compile_fail,E0423
/// let st = incremental::IncrState::new();
/// let v = st.var(1);
/// let o = v.observe();
/// let real: incremental::SubscriptionToken = o.subscribe(|_| {});
/// let _forged = incremental::SubscriptionToken(unreachable!(), 1);
/// let _ = real;
/// ```
pub fn token_forge() {}

/// Twin of `token_forge`: obtaining the token from `subscribe` compiles.
/// ```
/// let st = incremental::IncrState::new();
/// let v = st.var(1);
/// let o = v.observe();
/// let real: incremental::SubscriptionToken = o.subscribe(|_| {});
/// let _copy = real;
/// let _ = real;
/// ```
pub fn token_forge_twin() {}

/// C10: the observer lifecycle state is not nameable by users (module is private).
/// ```compile_fail,E0603
/// let _s = incremental::internal_observer::ObserverState::InUse;
/// ```
pub fn observer_state_private() {}

/// Twin: the public error enum next to it is nameable.
/// ```
/// let _s = incremental::ObserverError::Disallowed;
/// ```
pub fn observer_state_private_twin() {}

/// C07/C10: the token's fields cannot be read or edited to point at another observer.
/// ```compile_fail,E0616
/// let st = incremental::IncrState::new();
/// let o = st.var(1).observe();
/// let t = o.subscribe(|_| {});
/// let _id = t.0;
/// ```
pub fn token_fields_private() {}

/// Twin: tokens are Copy + Eq values.
/// ```
/// let st = incremental::IncrState::new();
/// let o = st.var(1).observe();
/// let t = o.subscribe(|_| {});
/// assert!(t == t);
/// ```
pub fn token_fields_private_twin() {}

/// C07.TYG-by-value: an observed value is an owned clone; it outlives the observer and the state.
/// ```
/// let v: i32 = {
///     let st = incremental::IncrState::new();
///     let o = st.var(5).observe();
///     st.stabilise();
///     o.try_get_value().unwrap()
/// };
/// assert_eq!(v, 5);
/// ```
pub fn value_is_owned_twin() {}

/// C13/C08: user code cannot write the engine status (field and type are crate-private).
/// ```compile_fail,E0603
/// let _ = incremental::state::IncrStatus::NotStabilising;
/// ```
pub fn status_private() {}

/// Twin: the read-only query is public.
/// ```
/// let st = incremental::IncrState::new();
/// assert!(!st.is_stabilising());
/// ```
pub fn status_private_twin() {}
