"""Rule template CTRL: control signature of bookkeeping effects.

For every *tracked effect* (a store to an engine bookkeeping field, a call of an engine transition function) the
set of things its execution is control-dependent on inside its function - the crate functions called and the fields
and parameters read by the controlling conditions ("atoms") - is frozen in rules/ctrl_sig.json. A change that puts a
tracked effect under a condition over a NEW atom (a fast path that skips the changed_at stamp when the node has no
parents; a callback skipped when the parent is already queued; a stamp written only when the node is necessary) or
that DROPS an atom it used to depend on (an insert no longer guarded by is_necessary) changes the signature.
Polarity, nesting and the order of conditions are deliberately not part of the signature, so early returns, De
Morgan rewrites, match/if-let forms and extracted helpers (inlined first) leave it unchanged.

Each tracked target is mapped to the properties it matters for, with a reason; untracked effects are ignored.

    python3 -m rules.ctrlsig --snapshot      rewrite rules/ctrl_sig.json from the current tree (all configs)
"""
import json
import os
import sys
from collections import defaultdict

from . import q
from .cfg import DefUse
from .expr import expr, walk
from .facts import strip_generics, short_path

HERE = os.path.dirname(os.path.abspath(__file__))
SNAP = os.path.join(HERE, "ctrl_sig.json")

# field suffix -> (properties, why)
FIELDS = {
    "node::Node.changed_at": (("C01", "C06"), "the stamp dependants compare to decide staleness"),
    "node::Node.recomputed_at": (("C01", "C06"), "staleness of the node itself"),
    "node::Node.value_opt": (("C07",), "the cached value observers read"),
    "node::Node.is_valid": (("C03",), "validity"),
    "node::Node.height": (("C02",), "height invariant"),
    "node::Node.height_in_recompute_heap": (("C11",), "heap membership marker"),
    "node::Node.height_in_adjust_heights_heap": (("C11",), "heap membership marker"),
    "node::Node.parents": (("C05", "C11"), "necessity / edge symmetry"),
    "node::Node.observers": (("C05", "C10"), "necessity / observer lifecycle"),
    "node::Node.force_necessary": (("C05",), "necessity"),
    "node::Node.is_in_handle_after_stabilisation": (("C09",), "handler queue marker"),
    "node::Node.num_on_update_handlers": (("C09",), "handler count"),
    "node::Node.on_update_handlers": (("C09",), "node-level handlers"),
    "state::State.status": (("C07", "C13"), "engine status"),
    "state::State.stabilisation_num": (("C08",), "the clock var writes are stamped with"),
    "state::State.set_during_stabilisation": (("C08",), "deferred write queue"),
    "state::State.dead_vars": (("C12", "C08"), "var cycle breaking queue"),
    "state::State.all_observers": (("C10", "C12"), "observer registry"),
    "state::State.new_observers": (("C10",), "observer queue"),
    "state::State.disallowed_observers": (("C10",), "observer queue"),
    "state::State.handle_after_stabilisation": (("C09",), "handler queue"),
    "state::State.run_on_update_handlers": (("C09",), "handler queue"),
    "state::State.propagate_invalidity": (("C03",), "invalidity stack"),
    "state::State.current_scope": (("C03", "C20"), "creation scope"),
    "var::Var.value": (("C08",), "the var's value slot"),
    "var::Var.value_set_during_stabilisation": (("C08",), "the deferred slot"),
    "var::Var.set_at": (("C08",), "write stamp"),
    "var::Var.node": (("C12",), "var <-> watch node cycle"),
    "internal_observer::InternalObserver.state": (("C10",), "observer state machine"),
    "internal_observer::InternalObserver.on_update_handlers": (("C09",), "subscriptions"),
    "kind::expert::ExpertNode.force_stale": (("C14", "C17"), "expert staleness"),
    "kind::expert::ExpertNode.num_invalid_children": (("C14",), "expert invalid-children count"),
    "kind::expert::ExpertNode.will_fire_all_callbacks": (("C14",), "expert callback replay"),
    "kind::expert::ExpertNode.children": (("C14",), "expert edges"),
    "kind::bind::BindNode.rhs": (("C03",), "bind rhs"),
    "kind::bind::BindNode.all_nodes_created_on_rhs": (("C03",), "nodes to invalidate when the bind re-runs"),
    "kind::map::MapRefNode.did_change": (("C01", "C06"), "map_ref change latch"),
    "adjust_heights_heap::AdjustHeightsHeap.max_height_seen": (("C19",), "greatest height in use"),
    "node_update::OnUpdateHandler.previous_update_kind": (("C09",), "subscriber transition state"),
}

# callee suffix (generics stripped) -> (properties, why)
CALLEES = {
    "recompute_heap::RecomputeHeap::insert": (("C01", "C05"), "scheduling"),
    "recompute_heap::RecomputeHeap::remove": (("C11",), "heap bookkeeping"),
    "recompute_heap::RecomputeHeap::increase_height": (("C02",), "re-link at the new height"),
    "adjust_heights_heap::AdjustHeightsHeap::adjust_heights": (("C02",), "height repair"),
    "adjust_heights_heap::AdjustHeightsHeap::ensure_height_requirement": (("C02", "C19"), "height repair / cycle test"),
    "adjust_heights_heap::AdjustHeightsHeap::set_height": (("C02", "C19"), "height store with limit test"),
    "ErasedNode>::became_necessary": (("C05",), "necessity transition"),
    "ErasedNode>::became_necessary_propagate": (("C05",), "necessity transition"),
    "ErasedNode>::became_unnecessary": (("C05",), "necessity transition"),
    "ErasedNode>::check_if_unnecessary": (("C05",), "necessity transition"),
    "ErasedNode>::invalidate_node": (("C03",), "invalidation"),
    "node::invalidate_nodes_created_on_rhs": (("C03",), "invalidation of a bind's rhs nodes"),
    "state::State::propagate_invalidity": (("C03",), "invalidation"),
    "ErasedNode>::propagate_invalidity_helper": (("C03", "C14"), "invalid-children count of an expert parent"),
    "kind::expert::ExpertNode::incr_invalid_children": (("C14",), "invalid-children count"),
    "kind::expert::ExpertNode::decr_invalid_children": (("C14",), "invalid-children count"),
    "ErasedNode>::remove_children": (("C05", "C11"), "unlinking"),
    "ErasedNode>::remove_child": (("C05", "C11"), "unlinking"),
    "ErasedNode>::remove_parent": (("C05", "C11"), "unlinking"),
    "ErasedNode>::state_add_parent": (("C05", "C11"), "linking"),
    "ErasedNode>::add_parent_without_adjusting_heights": (("C05", "C11"), "linking"),
    "ErasedNode>::child_changed": (("C01", "C14"), "change notification"),
    "node::Node::maybe_change_value": (("C01", "C06"), "change propagation"),
    "node::Node::maybe_change_value_manual": (("C01", "C06"), "change propagation"),
    "ErasedNode>::recompute": (("C01",), "recomputation"),
    "ErasedNode>::recompute_one": (("C01",), "recomputation"),
    "cutoff::ErasedCutoff::should_cutoff": (("C06",), "cutoff consultation"),
    "ErasedNode>::change_child_bind_rhs": (("C03",), "bind rhs swap"),
    "ErasedNode>::handle_after_stabilisation": (("C09",), "handler delivery"),
    "ErasedNode>::maybe_handle_after_stabilisation": (("C09",), "handler queueing"),
    "ErasedNode>::run_on_update_handlers": (("C09",), "handler delivery"),
    "ErasedObserver>::run_all": (("C09",), "handler delivery"),
    "node_update::OnUpdateHandler::run": (("C09",), "handler delivery"),
    "node_update::OnUpdateHandler::really_run": (("C09",), "handler delivery"),
    "ErasedObserver>::disallow_future_use": (("C10",), "observer lifecycle"),
    "ErasedObserver>::remove_from_observed_node": (("C10",), "observer lifecycle"),
    "ErasedObserver>::add_to_observed_node": (("C10",), "observer lifecycle"),
    "ErasedVariable>::set_var_stabilise_end": (("C08",), "deferred write application"),
    "var::Var::set_var_while_not_stabilising": (("C08",), "write application"),
    "var::Var::did_set_var_while_not_stabilising": (("C08",), "write application"),
    "ErasedVariable>::break_rc_cycle": (("C12", "C08"), "cycle breaking (must wait for the deferred write of a dropped var)"),
    "kind::expert::ExpertNode::make_stale": (("C14", "C16"), "expert staleness"),
    "kind::expert::ExpertNode::run_edge_callback": (("C14", "C16"), "edge callbacks"),
    "kind::expert::ExpertNode::before_main_computation": (("C14",), "expert recompute protocol"),
    "kind::expert::ExpertNode::observability_change": (("C14",), "expert observability"),
    "state::State::within_scope": (("C20",), "scope switch"),
    "symmetric_fold::SymmetricFoldMap::symmetric_fold": (("C15", "C17"), "diff fold"),
    "symmetric_fold::SymmetricMapMap::filter_map_collect": (("C15", "C17"), "full pass"),
    "symmetric_fold::SymmetricDiffMap::symmetric_diff": (("C18",), "diff"),
}

IGNORED_ATOMS = ("tracing", "fmt::", "Debug")
# comparison / conversion operators of crate types are how a quantity is tested, not a quantity
OPERATOR_SUFFIXES = ("::eq", "::ne", "::cmp", "::partial_cmp", "::lt", "::le", "::gt", "::ge", "::clone", "::deref",
                     "::deref_mut", "::borrow", "::as_ref", "::into", "::from")


def _target_of_call(t):
    c = strip_generics(t.j.get("resolved") or t.j.get("callee") or "")
    d = strip_generics(t.j.get("callee") or "")
    for cand in (c, d):
        for suf in CALLEES:
            if cand.endswith(suf):
                return suf
    return None


def _field_target(f):
    for suf in FIELDS:
        if f.endswith(suf):
            return suf
    return None


def _atoms(F, switch_bb, du):
    e = expr(F, F.blocks[switch_bb]["term"]["on"], du)
    out = set()
    for x in walk(e):
        if x[0] == "call":
            n = x[1]
            if n.startswith("incremental") or n.startswith("<incremental"):
                sp = short_path(n)
                if not any(k in sp for k in IGNORED_ATOMS) and not strip_generics(n).endswith(OPERATOR_SUFFIXES):
                    out.add("call:" + sp)
        elif x[0] == "field":
            for nm in x[2]:
                nm = str(nm)
                if nm.isdigit():
                    continue
                if nm.startswith("upvar#"):
                    nm = nm.split(":", 1)[-1].lstrip("*")
                out.add("field:" + nm)
        elif x[0] == "arg":
            out.add("arg%d" % x[1])
    return out


def signatures(prog):
    """key 'root fn | kind | target' -> sorted list of atom lists (one per site)."""
    from .effects import accesses
    sigs = defaultdict(list)
    per_fn = {}

    def ctl(F, bb, site=None):
        if F.path not in per_fn:
            per_fn[F.path] = (DefUse(F), F.cfg(), {})
        du, c, cache = per_fn[F.path]
        ck = (bb, id(site))
        if ck not in cache:
            at = set()
            loops = c.loops()
            argx = []
            if site is not None and getattr(site, "args", None):
                argx = [expr(F, a_, du) for a_ in site.args]
            for sb, _can in c.controlling_switches(bb):
                # `match opt { Some(x) => effect(x) }`: taking the value the effect consumes out of an Option is a
                # data dependency, not a guard (it is what `opt.map(|x| effect(x))` does implicitly)
                se = expr(F, F.blocks[sb]["term"]["on"], du)
                if se[0] == "discr" and argx and any(any(y == se[1] for y in walk(ax)) for ax in argx):
                    continue
                # code after a loop "depends" on the loop's exit test only because the alternative is to keep
                # looping: not a guard (a loop rewritten as an iterator chain has no such test)
                if any(sb in body and bb not in body for body in loops.values()):
                    continue
                at |= _atoms(F, sb, du)
                # a materialised boolean (`let is_dead = matches!(state, ..); if is_dead {..}`): the test is on a
                # local assigned constants under other tests - those tests are what the effect depends on
                on = F.blocks[sb]["term"]["on"]
                pl = on.get("copy") or on.get("move") if isinstance(on, dict) else None
                if pl and not pl["proj"]:
                    loc = pl["local"]
                    for _ in range(6):      # follow `let x = y;` copies back to the materialised boolean
                        ds = du.defs.get(loc, [])
                        if len(ds) == 1 and ds[0][0] == "assign" and "use" in (ds[0][1].rv or {}):
                            u = ds[0][1].rv["use"]
                            p2 = u.get("copy") or u.get("move")
                            if p2 and not p2["proj"]:
                                loc = p2["local"]
                                continue
                        break
                    defs = du.defs.get(loc, [])
                    if len(defs) > 1 and all(k == "assign" and "use" in (s_.rv or {}) and "const" in s_.rv["use"]
                                             for k, s_ in defs):
                        for _k, s_ in defs:
                            for sb2, _c2 in c.controlling_switches(s_.bb):
                                at |= _atoms(F, sb2, du)
            cache[ck] = sorted(at)
        return cache[ck]

    for F in prog.fns.values():
        if not F.crate.startswith("incremental") or F.j.get("from_expansion"):
            continue
        for t in F.calls():
            if F.is_cleanup(t.bb):
                continue
            tgt = _target_of_call(t)
            if tgt is None:
                continue
            sigs["%s|call|%s" % (strip_generics(F.root), tgt)].append(ctl(F, t.bb, t))
    for a in accesses(prog):
        if not a.write:
            continue
        tgt = _field_target(a.field)
        if tgt is None or not a.fn.crate.startswith("incremental") or a.fn.is_cleanup(a.bb):
            continue
        sigs["%s|write|%s" % (strip_generics(a.fn.root), tgt)].append(ctl(a.fn, a.bb, a.site))
    return {k: sorted(v) for k, v in sigs.items()}


def load_snapshot(config):
    try:
        with open(SNAP) as fh:
            return json.load(fh).get(config)
    except FileNotFoundError:
        return None


def check(ctx, prog, prop):
    """Run the CTRL rule for one property: only targets mapped to `prop` are compared."""
    R = "%s.CTRL-guards" % prop
    ctx.rule(R, "the control signature (crate functions, fields and parameters read by the controlling conditions) of "
                "every tracked bookkeeping store / engine transition call relevant to this property equals the frozen "
                "one: no new guard over a new quantity, no guard dropped")
    snap = load_snapshot(prog.config)
    if snap is None:
        ctx.missing(R, "rules/ctrl_sig.json entry for configuration " + prog.config)
        return
    cur = signatures(prog)
    mine = lambda key: prop in (FIELDS if key.split("|")[1] == "write" else CALLEES).get(key.split("|", 2)[2], ((), ""))[0]
    n = 0
    for key in sorted(set(cur) | set(snap)):
        if not mine(key):
            continue
        root, kind, tgt = key.split("|", 2)
        a, b = cur.get(key, []), [list(x) for x in snap.get(key, [])]
        n += len(a)
        F = prog.fn(root)
        ctx.site(R, F if F is not None else root, "%s %s x%d" % (kind, tgt.rsplit("::", 1)[-1], len(a)))
        inst = "%s:%s:%s" % (kind, short_path(root), tgt.rsplit("::", 1)[-1].rsplit(".", 1)[-1])
        if a == b:
            ctx.ok(R, inst)
            continue
        # describe the difference by atoms
        new = sorted(set(x for s in a for x in s) - set(x for s in b for x in s))
        gone = sorted(set(x for s in b for x in s) - set(x for s in a for x in s))
        if not new and not gone and len(a) == len(b):
            # same atoms overall, distributed differently over the sites of this function: tolerated
            ctx.ok(R, inst, "atoms redistributed")
            continue
        def sub(x, y):
            y = list(y)
            for e in x:
                if e in y:
                    y.remove(e)
                else:
                    return False
            return True
        if not a or not b or sub(b, a) or sub(a, b):
            # the effect appeared in / disappeared from this function altogether: other rules (who-may-call / floors)
            # own that; a moved effect is not a guard change
            # every frozen site is still there with its signature (sites were added, e.g. a helper's body moved into
            # this function) or sites only disappeared: not a re-guarded effect
            ctx.ok(R, inst, "site set changed (%d -> %d), left to the who-may-call rules" % (len(b), len(a)))
            continue
        why = (FIELDS if kind == "write" else CALLEES)[tgt][1]
        ctx.fail(R, inst, "%s of %s in %s (%s): now also depends on %s%s%s; frozen signature %s, current %s. A new guard "
                 "over a quantity the effect never depended on (or a dropped one) is how fast paths lose bookkeeping "
                 "updates" % ("store" if kind == "write" else "call", tgt, short_path(root), why, new or "nothing new",
                              "; no longer depends on " if gone else "", gone if gone else "", b, a),
                 fn=F if F is not None else None)
    ctx.floor(R, n, 1)


def make_rule(prop):
    def rule(ctx, prog):
        check(ctx, prog, prop)
    rule.rule_id = "%s.CTRL-guards" % prop
    rule.__name__ = "ctrl_guards"
    return rule


def snapshot():
    from . import extract
    from .facts import Program
    out = {}
    thash, _ = extract.tree_hash()
    for cfg in extract.THOROUGH_CONFIGS:
        d = extract.extract(cfg, thash=thash)
        prog = Program(d, cfg)
        out[cfg] = signatures(prog)
        print(cfg, len(out[cfg]), "tracked (function, target) pairs,", sum(len(v) for v in out[cfg].values()), "sites")
    with open(SNAP, "w") as fh:
        json.dump(out, fh, indent=0, sort_keys=True)


if __name__ == "__main__":
    if "--snapshot" in sys.argv:
        snapshot()
