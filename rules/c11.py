"""C11 — engine bookkeeping is self-consistent (structural clauses).

Decided: counters move in the same direction as the collections they mirror; heap membership
markers and heights are written only by their owner; the necessary counters are bumped once per
transition under a was-necessary guard; children are unlinked before a node is marked invalid.
"""
from . import q
from .cfg import DefUse
from .colls import coll_ops
from .effects import counter_effects, writes_of
from .facts import strip_generics
from .expr import expr, show, mentions  # noqa: F401

EXPLANATION = (
    "Static rules over MIR facts of /repo. Decided clause of C11: (SIGN) every function that "
    "changes Node.num_on_update_handlers, RecomputeHeap.length, AdjustHeightsHeap.length or "
    "State.num_active_observers changes it in the direction in which it changes the mirrored "
    "collection, and no function outside the frozen writer table touches these counters; (WMW) "
    "height_in_recompute_heap / height_in_adjust_heights_heap / height are written only by their "
    "owning heap; (GUARD) became_necessary / became_unnecessary are entered only under a sampled "
    "is_necessary() guard and bump their statistic exactly once; (DOM) invalidate_node unlinks "
    "children before it flips is_valid.")
NOT_DECIDED = ("The two index arrays of ParentChildIndices (relational invariant over runtime "
               "arrays) and the audit over all quiescent states are not decided statically.")
ASSUMPTIONS = ["Vec/VecDeque/HashMap methods change the collection size as their names say",
               "InternalObserver::num_handlers() is non-negative (len() as i32)"]

F_HANDLERS = "incremental::node::Node.num_on_update_handlers"

# function (path suffix) -> (counter sign, mirrored collection field suffix or None, collection sign)
HANDLER_TABLE = {
    "ErasedObserver>::add_to_observed_node": ("+", None, None,
        "observer linked: its handlers start counting (collection change is Node.observers via add_observer)"),
    "ErasedObserver>::remove_from_observed_node": ("-", None, None,
        "observer unlinked: its handlers stop counting"),
    "ErasedObserver>::unsubscribe": ("-", "InternalObserver.on_update_handlers", "-",
        "a handler of a linked observer is removed"),
    "InternalObserver::<T>::subscribe": ("+", "InternalObserver.on_update_handlers", "+",
        "a handler is added to a linked observer"),
    "Incremental<R>>::add_on_update_handler": ("+", "Node.on_update_handlers", "+",
        "node-level handler pushed"),
}


def _match_table(path, table):
    for k in table:
        if path.endswith(k):
            return k
    return None


def sign_handlers(ctx, prog):
    R = "C11.SIGN-handlers"
    ctx.rule(R, "every writer of Node.num_on_update_handlers is in the frozen table and moves the "
                "counter in the direction the handler collection moves")
    effs = counter_effects(prog, F_HANDLERS)
    seen = set()
    for a, sign in effs:
        ctx.site(R, a.fn, "bb%d %s %s" % (a.bb, a.kind, sign))
        k = _match_table(a.fn.path, HANDLER_TABLE)
        if k is None:
            ctx.fail(R, "writer:" + a.fn.short, "unexpected writer of num_on_update_handlers (%s)" % a.kind,
                     fn=a.fn, span=a.span)
            continue
        seen.add(k)
        want, coll, csign, why = HANDLER_TABLE[k]
        if sign != want:
            ctx.fail(R, "sign:" + k.split("::")[-1],
                     "counter moves '%s' but the specification says '%s' (%s)" % (sign, want, why),
                     fn=a.fn, span=a.span)
        else:
            ctx.ok(R, "sign:" + k.split("::")[-1], sign)
        if coll:
            ops = [o for o in coll_ops(prog, a.fn) if any(f.endswith(coll) for f in o.fields)]
            signs = {o.sign for o in ops}
            for o in ops:
                ctx.site(R, a.fn, "bb%d %s" % (o.bb, o.method))
            if signs != {csign}:
                ctx.fail(R, "coll:" + k.split("::")[-1],
                         "mirrored collection %s changes %s, expected {%s}" % (coll, sorted(signs), csign),
                         fn=a.fn, span=a.span)
            else:
                ctx.ok(R, "coll:" + k.split("::")[-1], csign)
    for k in HANDLER_TABLE:
        if k not in seen:
            ctx.missing(R, "writer of num_on_update_handlers: " + k)
    ctx.floor(R, len(effs), 5)
    # handlers of an observer that is not linked yet (Created) are counted in bulk by add_to_observed_node: subscribe /
    # unsubscribe may touch the node's counter only in the InUse state
    from .expr import expr
    from . import dtab
    OS = "incremental::internal_observer::ObserverState"
    for a, sign in effs:
        F = a.fn
        if not (F.path.endswith("ErasedObserver>::unsubscribe") or F.path.endswith("InternalObserver::<T>::subscribe")):
            continue
        du = DefUse(F)
        c = F.cfg()
        states = None
        for s_, can in c.controlling_switches(a.bb):
            e = expr(F, F.blocks[s_]["term"]["on"], du)
            if e[0] == "discr" and dtab.is_field_get("state")(e[1]):
                vals = {prog.variant_by_discr(OS, v) for x in can for v in c.edge_values(s_, x) if v != "otherwise"}
                states = vals if states is None else (states & vals)
        inst = "inuse-only:" + F.name
        if states == {"InUse"}:
            ctx.ok(R, inst)
        else:
            ctx.fail(R, inst, "%s changes the node's handler count in observer states %s; only InUse observers are counted "
                     "on the node (a Created observer's handlers are added in bulk when it is linked), so the count drifts "
                     "and Changed notifications stop being queued" % (F.name, sorted(states) if states else "any"), fn=F,
                     span=a.span)


HEAP_TABLE = {
    # function -> (length sign, queue signs)
    q.RCH + "insert": ("+", {"+"}),
    q.RCH + "remove": ("-", {"-"}),
    q.RCH + "remove_min": ("-", {"-"}),
    q.RCH + "clear": ("const:0", {"clear"}),
    q.RCH + "increase_height": (None, {"+", "-"}),
    q.AHH + "add_unless_mem": ("+", {"+"}),
    q.AHH + "remove_min": ("-", {"-"}),
    q.AHH + "clear": ("const:0", {"clear"}),
}


def _queue_signs(prog, F, depth=0, seen=None):
    """Signs of VecDeque<Rc<Node>> operations in F and its local callees (same impl)."""
    seen = seen or set()
    if F.path in seen or depth > 3:
        return set(), []
    seen.add(F.path)
    signs = set()
    sites = []
    for G in prog.with_closures(F):
        for o in coll_ops(prog, G):
            if "VecDeque" in o.method:
                signs.add(o.sign)
                sites.append(o)
        for t in G.calls():
            for T in prog.call_targets(t):
                if T.impl_self_adt and T.impl_self_adt == F.impl_self_adt and T.path != F.path:
                    s2, si2 = _queue_signs(prog, T, depth + 1, seen)
                    signs |= s2
                    sites += si2
    return signs, sites


def sign_heaps(ctx, prog):
    R = "C11.SIGN-heaps"
    ctx.rule(R, "RecomputeHeap.length / AdjustHeightsHeap.length move with the per-height queues; "
                "State.num_active_observers +1 in observe, -1 in both live arms of disallow_future_use")
    n = 0
    for field, prefix in (("incremental::recompute_heap::RecomputeHeap.length", q.RCH),
                          ("incremental::adjust_heights_heap::AdjustHeightsHeap.length", q.AHH)):
        effs = counter_effects(prog, field)
        by_fn = {}
        for a, s in effs:
            by_fn.setdefault(a.fn.path, []).append((a, s))
            ctx.site(R, a.fn, "bb%d %s %s" % (a.bb, a.kind, s))
            n += 1
        for path, (lsign, qsigns) in HEAP_TABLE.items():
            if not path.startswith(prefix):
                continue
            F = ctx.need_fn(R, path)
            if F is None:
                continue
            got = sorted({s for _, s in by_fn.get(path, [])})
            want = [lsign] if lsign else []
            inst = path.split("::")[-2] + "::" + path.split("::")[-1]
            if got != want:
                ctx.fail(R, "length:" + inst, "length effect %s, specified %s" % (got, want), fn=F)
            else:
                ctx.ok(R, "length:" + inst, str(got))
            qs, sites = _queue_signs(prog, F)
            for o in sites:
                ctx.site(R, o.fn, "bb%d %s" % (o.bb, o.method))
            if qs != qsigns:
                ctx.fail(R, "queues:" + inst, "queue effect %s, specified %s" % (sorted(qs), sorted(qsigns)), fn=F)
            else:
                ctx.ok(R, "queues:" + inst, str(sorted(qs)))
        for path in by_fn:
            if path not in HEAP_TABLE:
                F = prog.fns[path]
                ctx.fail(R, "writer:" + F.short, "unexpected writer of %s" % field, fn=F)
    # num_active_observers
    effs = counter_effects(prog, "incremental::state::State.num_active_observers")
    plus = [(a, s) for a, s in effs if a.fn.path == q.STATE + "observe"]
    minus = [(a, s) for a, s in effs if a.fn.path == q.OBS_IMPL + "disallow_future_use"]
    for a, s in effs:
        ctx.site(R, a.fn, "bb%d %s %s" % (a.bb, a.kind, s))
        n += 1
        if a.fn.path not in (q.STATE + "observe", q.OBS_IMPL + "disallow_future_use"):
            ctx.fail(R, "writer:" + a.fn.short, "unexpected writer of num_active_observers", fn=a.fn, span=a.span)
    if [s for _, s in plus] != ["+"]:
        ctx.fail(R, "active:observe", "State::observe must add exactly one active observer, found %s" %
                 [s for _, s in plus], fn=prog.fn(q.STATE + "observe"))
    else:
        ctx.ok(R, "active:observe")
    # per observer state: exactly one decrement for Created / InUse, none for Disallowed / Unlinked
    D = prog.fn(q.OBS_IMPL + "disallow_future_use")
    if D is None:
        ctx.missing(R, "disallow_future_use")
    else:
        from . import dtab
        from .effects import resolve_fields
        OS = "incremental::internal_observer::ObserverState"
        minus_sites = {id(a.site): sg for a, sg in minus}
        acts = [dtab.Action("active", lambda t: id(t) in minus_sites or any(
            t.bb == a.site.bb for a, _ in minus), lambda F_, t, du_: [sg for a, sg in minus if a.site.bb == t.bb][0])]
        tb = dtab.table(D, [dtab.Sym("state", dtab.is_field_get("state"), dtab.enum_domain(prog, OS))], acts,
                        record_returns=False, path_sensitive=True)
        good = True
        for (st,), res in sorted(tb.items()):
            seqs = sorted({tuple(a[1] for a in r if a[0] == "active") for r in res})
            ctx.site(R, D, "disallow_future_use(%s) -> active %s" % (st, seqs))
            want = [("-",)] if st in ("Created", "InUse") else [()]
            if seqs != want:
                good = False
        if good:
            ctx.ok(R, "active:disallow")
        else:
            ctx.fail(R, "active:disallow", "disallow_future_use must subtract one active observer exactly once for Created "
                     "and InUse observers and never for Disallowed / Unlinked ones", fn=D)
    ctx.floor(R, n, 8)


MARKER_TABLE = {
    "incremental::node::Node.height_in_recompute_heap": {q.RCH + "link", q.RCH + "remove", q.RCH + "remove_min"},
    "incremental::node::Node.height_in_adjust_heights_heap": {q.AHH + "add_unless_mem", q.AHH + "remove_min"},
    "incremental::node::Node.height": {q.NODE_IMPL + "set_height"},
}
CALLER_TABLE = {
    q.NODE_IMPL + "set_height": {q.AHH + "set_height"},
    q.AHH + "set_height": {q.STATE + "set_height", q.AHH + "ensure_height_requirement"},
    q.RCH + "link": {q.RCH + "insert", q.RCH + "increase_height"},
    q.RCH + "unlink": {q.RCH + "remove", q.RCH + "increase_height"},
}


def wmw_markers(ctx, prog):
    R = "C11.WMW-markers"
    ctx.rule(R, "heap membership markers and Node.height are written only by the owning heap; "
                "set_height/link/unlink are called only from their owners")
    n = 0
    for field, allowed in MARKER_TABLE.items():
        ws = writes_of(prog, field)
        if not ws:
            ctx.missing(R, "writes of " + field)
        for a in ws:
            n += 1
            ctx.site(R, a.fn, "bb%d %s %s" % (a.bb, a.kind, field.rsplit(".", 1)[-1]))
            if a.fn.root not in allowed and a.fn.path not in allowed:
                ctx.fail(R, "writer:%s:%s" % (field.rsplit(".", 1)[-1], a.fn.short),
                         "%s is written outside its owner (%s)" % (field, a.kind), fn=a.fn, span=a.span)
            else:
                ctx.ok(R, "writer:%s:%s" % (field.rsplit(".", 1)[-1], a.fn.short))
    for callee, allowed in CALLER_TABLE.items():
        F = ctx.need_fn(R, callee)
        if F is None:
            continue
        cs = prog.callers(F)
        if not cs:
            ctx.missing(R, "callers of " + callee)
        for t in cs:
            n += 1
            ctx.site(R, t.fn, "bb%d call %s" % (t.bb, F.short))
            if q.is_debug_assert(t):
                continue
            if t.fn.root not in allowed:
                ctx.fail(R, "caller:%s:%s" % (F.short, t.fn.short),
                         "%s called from outside its owner" % F.short, fn=t.fn, span=t.span)
            else:
                ctx.ok(R, "caller:%s:%s" % (F.short, t.fn.short))
    ctx.floor(R, n, 13)


def guard_stats(ctx, prog):
    R = "C11.GUARD-stats"
    ctx.rule(R, "num_nodes_became_(un)necessary is bumped once, unconditionally, in became_(un)necessary; "
                "became_necessary is entered only under a !was_necessary guard sampled before the link, "
                "became_unnecessary only from check_if_unnecessary under !is_necessary()")
    n = 0
    for field, fname in (("State.num_nodes_became_necessary", "became_necessary"),
                         ("State.num_nodes_became_unnecessary", "became_unnecessary")):
        F = ctx.need_fn(R, q.NODE_IMPL + fname)
        if F is None:
            continue
        effs = counter_effects(prog, "incremental::state::" + field)
        for a, s in effs:
            n += 1
            ctx.site(R, a.fn, "bb%d %s %s" % (a.bb, a.kind, s))
        mine = [(a, s) for a, s in effs if a.fn.path == F.path]
        others = [(a, s) for a, s in effs if a.fn.path != F.path]
        for a, s in others:
            ctx.fail(R, "writer:" + a.fn.short, "unexpected writer of " + field, fn=a.fn, span=a.span)
        if len(mine) != 1 or mine[0][1] != "+":
            ctx.fail(R, "once:" + fname, "expected exactly one increment of %s, found %s" %
                     (field, [s for _, s in mine]), fn=F)
            continue
        a = mine[0][0]
        c = F.cfg()
        # every normal path entry -> return passes the increment; not in a loop
        p = c.path([0], c.exits, avoid={a.bb})
        if p is not None:
            ctx.fail(R, "once:" + fname, "a path reaches the end of %s without bumping %s" % (fname, field),
                     fn=F, path=q.fmt_path(F, p))
        elif c.in_loop(a.bb):
            ctx.fail(R, "once:" + fname, "the increment of %s lies in a loop" % field, fn=F, span=a.span)
        else:
            ctx.ok(R, "once:" + fname)
    # callers of became_necessary
    BN = prog.fn(q.NODE_IMPL + "became_necessary")
    if BN is not None:
        callers = [t for t in prog.callers(BN)]
        allowed = {q.NODE_IMPL + "add_parent_without_adjusting_heights": ("add_parent",),
                   q.NODE_IMPL + "became_necessary_propagate": None}
        for t in callers:
            n += 1
            ctx.site(R, t.fn, "bb%d call became_necessary" % t.bb)
            if t.fn.path not in allowed:
                ctx.fail(R, "caller:" + t.fn.short, "became_necessary called from an unlisted function",
                         fn=t.fn, span=t.span)
                continue
            link = allowed[t.fn.path]
            if link is None:
                ctx.ok(R, "caller:" + t.fn.short, "wrapper")
                continue
            _check_was_necessary_guard(ctx, R, prog, t.fn, t, link)
        # the wrapper's callers
        BNP = prog.fn(q.NODE_IMPL + "became_necessary_propagate")
        if BNP is None:
            ctx.missing(R, "became_necessary_propagate")
        else:
            for t in prog.callers(BNP):
                n += 1
                ctx.site(R, t.fn, "bb%d call became_necessary_propagate" % t.bb)
                if t.fn.path != q.STATE + "add_new_observers":
                    ctx.fail(R, "caller:" + t.fn.short, "became_necessary_propagate called from an "
                             "unlisted function", fn=t.fn, span=t.span)
                else:
                    _check_was_necessary_guard(ctx, R, prog, t.fn, t, ("add_to_observed_node",))
    BU = prog.fn(q.NODE_IMPL + "became_unnecessary")
    if BU is not None:
        for t in prog.callers(BU):
            n += 1
            ctx.site(R, t.fn, "bb%d call became_unnecessary" % t.bb)
            if t.fn.path != q.NODE_IMPL + "check_if_unnecessary":
                ctx.fail(R, "caller:" + t.fn.short, "became_unnecessary called from outside "
                         "check_if_unnecessary", fn=t.fn, span=t.span)
                continue
            g = q.guarded_by_call(prog, t.fn, t.bb, ("ErasedNode>::is_necessary",))
            okg = False
            for s, can, o in g:
                vals = [v for x in can for v in t.fn.cfg().edge_values(s, x)]
                if vals == [0]:
                    okg = True
            if okg:
                ctx.ok(R, "caller:check_if_unnecessary")
            else:
                ctx.fail(R, "caller:check_if_unnecessary", "became_unnecessary is not guarded by "
                         "is_necessary() == false", fn=t.fn, span=t.span)
    ctx.floor(R, n, 6)


def _check_was_necessary_guard(ctx, R, prog, F, call, link_names):
    du = DefUse(F)
    g = q.guarded_by_call(prog, F, call.bb, ("ErasedNode>::is_necessary",), du)
    inst = "guard:" + F.short
    good = False
    for s, can, o in g:
        vals = [v for x in can for v in F.cfg().edge_values(s, x)]
        if vals != [0]:
            continue
        # the is_necessary() sample dominates the linking call
        sample_bb = o.site.bb
        links = q.calls_in(F, *link_names)
        if not links:
            ctx.missing(R, "%s in %s" % (link_names, F.short))
            return
        if all(F.cfg().dominates(sample_bb, l.bb) and sample_bb != l.bb for l in links):
            good = True
    if good:
        ctx.ok(R, inst)
    else:
        ctx.fail(R, inst, "became_necessary is not guarded by `!was_necessary` with was_necessary = "
                 "is_necessary() sampled before %s" % (link_names,), fn=F, span=call.span)


def dom_invalidate(ctx, prog):
    R = "C11.DOM-invalidate"
    ctx.rule(R, "in invalidate_node the is_necessary()-guarded remove_children precedes "
                "is_valid.set(false) on every path and is unreachable after it")
    F = ctx.need_fn(R, q.NODE_IMPL + "invalidate_node")
    if F is None:
        return
    c = F.cfg()
    sets = [a for a in writes_of(prog, "incremental::node::Node.is_valid") if a.fn.path == F.path]
    rc = q.calls_in(F, "Node::remove_children")
    for a in sets:
        ctx.site(R, F, "bb%d is_valid.%s" % (a.bb, a.kind))
    for t in rc:
        ctx.site(R, F, "bb%d remove_children" % t.bb)
    if len(sets) != 1 or not rc:
        ctx.fail(R, "shape", "expected one is_valid write and a remove_children call in invalidate_node "
                 "(found %d / %d)" % (len(sets), len(rc)), fn=F)
        return
    vb = sets[0].bb
    bad = [t for t in rc if t.bb in c.reach({vb})]
    if bad:
        ctx.fail(R, "order", "remove_children is reachable after is_valid.set(false): kind() is None "
                 "there, so the children are never unlinked", fn=F, span=bad[0].span)
        return
    # the guard: switch on is_necessary() whose true edge leads to remove_children, dominating the store
    g = q.guarded_by_call(prog, F, rc[0].bb, ("ErasedNode>::is_necessary",))
    gd = [s for s, can, o in g if c.dominates(s, vb)]
    if not gd:
        ctx.fail(R, "guard", "remove_children is not under an is_necessary() branch that dominates the "
                 "is_valid store", fn=F, span=rc[0].span)
        return
    # on the necessary edge, every path to the store passes remove_children
    s = gd[0]
    true_targets = [x for x in c.succ[s] if rc[0].bb in c.reach({x}, avoid={s})]
    p = c.path(true_targets, [vb], avoid={rc[0].bb})
    if p is not None:
        ctx.fail(R, "order", "a path from the necessary arm reaches is_valid.set(false) without "
                 "remove_children", fn=F, path=q.fmt_path(F, p))
    else:
        ctx.ok(R, "order")
    # all writers of is_valid
    for a in writes_of(prog, "incremental::node::Node.is_valid"):
        ctx.site(R, a.fn, "bb%d is_valid.%s" % (a.bb, a.kind))
        if a.fn.path != F.path:
            ctx.fail(R, "writer:" + a.fn.short, "Node.is_valid written outside invalidate_node", fn=a.fn,
                     span=a.span)


def dom_bracket(ctx, prog, R="C11.DOM-bracket"):
    ctx.rule(R, "change_child_bind_rhs: the old rhs is unlinked first, then kept force_necessary exactly while the new "
                "rhs is linked (set(true) .. state_add_parent(new) .. set(false)), then check_if_unnecessary(old)")
    F = ctx.need_fn(R, q.NODE_IMPL + "change_child_bind_rhs")
    if F is None:
        return
    from .expr import expr
    du = DefUse(F)
    c = F.cfg()
    sets = [a for a in writes_of(prog, "incremental::node::Node.force_necessary") if a.fn.path == F.path and a.kind == "set"]
    on = [a for a in sets if q.op_const(a.site.args[1]) and q.op_const(a.site.args[1]).get("int") == 1]
    off = [a for a in sets if q.op_const(a.site.args[1]) and q.op_const(a.site.args[1]).get("int") == 0]
    rem = q.calls_in(F, "ErasedNode>::remove_parent")
    chk = q.calls_in(F, "ErasedNode>::check_if_unnecessary")
    ctx.site(R, F, "force_necessary on %s off %s; remove_parent %s; check_if_unnecessary %s" % (
        [a.bb for a in on], [a.bb for a in off], [t.bb for t in rem], [t.bb for t in chk]))
    if len(on) != 1 or len(off) != 1 or len(rem) != 1 or len(chk) != 1:
        ctx.fail(R, "shape", "expected one force_necessary on/off pair, one remove_parent and one check_if_unnecessary", fn=F,
                 kind="anchor")
        return
    # the state_add_parent that lies in the Some(old_child) arm
    adds = [t for t in q.calls_in(F, "ErasedNode>::state_add_parent") if t.bb in c.reach({rem[0].bb})]
    if len(adds) != 1:
        ctx.fail(R, "shape", "expected one state_add_parent after remove_parent", fn=F, kind="anchor")
        return
    a = adds[0]
    order = [rem[0].bb, on[0].bb, a.bb, off[0].bb, chk[0].bb]
    good = all(c.dominates(order[i], order[i + 1]) and order[i] != order[i + 1] for i in range(len(order) - 1))
    # every site acts on the old child (arg2), the link on the new child (arg3)
    objs_ok = all(expr(F, t.args[0], du) != ("arg", 3) for t in (rem[0], chk[0])) and expr(F, a.args[0], du) == ("arg", 3)
    for wsite in (on[0], off[0]):
        e = expr(F, wsite.site.args[0], du)
        objs_ok = objs_ok and e[0] == "call" and e[1].endswith("force_necessary") and e[2][0] != ("arg", 3)
    if good and objs_ok:
        ctx.ok(R, "bracket")
    else:
        ctx.fail(R, "bracket", "the force_necessary bracket does not enclose the linking of the new rhs (order of blocks %s): "
                 "when the new rhs depends on the old one, the old rhs looks unnecessary while it is re-linked and "
                 "became_necessary runs on it a second time (duplicate edges, necessary counter drifts)" % order, fn=F,
                 span=a.span)


def data_swap(ctx, prog, R="C11.DATA-swap"):
    ctx.rule(R, "expert_swap_children_except_in_kind is a swap: parent.slot[i1] := old parent.slot[i2], parent.slot[i2] := "
                "old parent.slot[i1]; child1.back[old slot[i1]] := i2; child2.back[old slot[i2]] := i1 (loads precede stores)")
    from .expr import expr, show
    from .facts import Place
    F = ctx.need_fn(R, q.NODE_IMPL + "expert_swap_children_except_in_kind")
    if F is None:
        return
    du = DefUse(F)
    c = F.cfg()

    def norm(e):
        """index(_mut)(<owner>.<array>, <idx>) -> (owner arg, array, idx-expr)"""
        if e[0] == "call" and (e[1].endswith("::index") or e[1].endswith("::index_mut")) and len(e[2]) == 2:
            arr, idx = e[2]
            if arr[0] == "field":
                owner = [x for x in __import__("rules.expr", fromlist=["walk"]).walk(arr) if x[0] == "arg"]
                return ("elem", owner[0][1] if owner else None, arr[2][-1], norm(idx))
        if e[0] == "arg":
            return ("arg", e[1])
        return ("?", show(e)[:40])
    stores = []
    for st in F.stmts():
        if st.dst is None or st.dst.proj != ["deref"] or F.is_cleanup(st.bb) or q.is_debug_assert(st):
            continue
        base = expr(F, Place({"local": st.dst.local, "proj": []}), du)
        if not (base[0] == "call" and base[1].endswith("::index_mut")):
            continue
        val = expr(F, st.rv["use"], du) if "use" in (st.rv or {}) else ("?",)
        stores.append((st, norm(base), norm(val)))
        ctx.site(R, F, "bb%d %s := %s" % (st.bb, show(base)[-70:], show(val)[-70:]))
    P, A = "my_parent_index_in_child_at_index", "my_child_index_in_parent_at_index"
    slot = lambda i: ("elem", 1, P, ("arg", i))
    want = {
        (("elem", 1, P, ("arg", 3)), slot(5)),
        (("elem", 1, P, ("arg", 5)), slot(3)),
        (("elem", 2, A, slot(3)), ("arg", 5)),
        (("elem", 4, A, slot(5)), ("arg", 3)),
    }
    got = {(b, v) for _, b, v in stores}
    if got != want:
        ctx.fail(R, "swap", "the index swap is not a permutation: stores %s, specified %s. A removed dependency that is not the "
                 "last one leaves the parent's slot pointing at the wrong position in the child's parent list"
                 % (sorted(map(str, got - want)), sorted(map(str, want - got))), fn=F,
                 span=stores[0][0].span if stores else None)
        return
    # the two slot loads happen before the first store into the parent's array
    pst = [st for st, b, v in stores if b[1] == 1]
    loads = [t for t in F.calls() if t.callee and t.callee.endswith("::index") and not q.is_debug_assert(t)
             and any(f.endswith(P) for f in __import__("rules.effects", fromlist=["x"]).resolve_fields(prog, F, t.arg_place(0), du))]
    first_store = min(pst, key=lambda s_: s_.bb)
    if loads and all(c.dominates(t.bb, first_store.bb) and t.bb != first_store.bb for t in loads):
        ctx.ok(R, "swap")
    else:
        ctx.fail(R, "swap", "a slot is read after the parent's array has been overwritten", fn=F)


for _f, _id in ((sign_handlers, "C11.SIGN-handlers"), (sign_heaps, "C11.SIGN-heaps"),
                (wmw_markers, "C11.WMW-markers"), (guard_stats, "C11.GUARD-stats"),
                (dom_invalidate, "C11.DOM-invalidate"), (dom_bracket, "C11.DOM-bracket"), (data_swap, "C11.DATA-swap")):
    _f.rule_id = _id

def data_remove_parent(ctx, prog, R="C11.DATA-remove-parent"):
    ctx.rule(R, "remove_parent's swap-remove bookkeeping: parent.slot[child_index] := -1; the moved (last) parent's "
                "slot[end_child_index] := parent_index; child.back[parent_index] := end_child_index (the MOVED parent's "
                "input slot, read from child.back[last]); child.back[last] := -1")
    from .facts import Place
    F = ctx.need_fn(R, q.NODE_IMPL + "remove_parent")
    if F is None:
        return
    du = DefUse(F)
    P, A = "my_parent_index_in_child_at_index", "my_child_index_in_parent_at_index"

    def norm(e):
        s_ = show(e)
        # symbolic names for the quantities of the function
        s_ = s_.replace("borrow_mut(", "(").replace("borrow(", "(")
        return s_
    PARENT_IDX = "index((parent_child_indices(erased(arg3))).%s, arg2)" % P
    LAST = "Sub(len((arg1.parents)), 1)"
    END_CHILD = "index((arg1.parent_child_indices).%s, %s)" % (A, LAST)
    want = {
        ("index_mut((parent_child_indices(erased(arg3))).%s, arg2)" % P, "-1"),
        ("index_mut((arg1.parent_child_indices).%s, %s)" % (A, PARENT_IDX), END_CHILD),
        ("index_mut((arg1.parent_child_indices).%s, %s)" % (A, LAST), "-1"),
    }
    got = set()
    moved = None
    for st in F.stmts():
        if st.dst is None or st.dst.proj != ["deref"] or F.is_cleanup(st.bb) or q.is_debug_assert(st):
            continue
        base = expr(F, Place({"local": st.dst.local, "proj": []}), du)
        if not (base[0] == "call" and base[1].endswith("::index_mut")):
            continue
        val = expr(F, st.rv["use"], du) if "use" in (st.rv or {}) else ("?",)
        b, v = norm(base), norm(val)
        ctx.site(R, F, "bb%d %s := %s" % (st.bb, b[-90:], v[-80:]))
        if "upgrade(" in b and b.endswith("%s, %s)" % (P, END_CHILD)):
            moved = (b, v)       # the moved parent's table, indexed by end_child_index
        else:
            got.add((b, v))
    bad = []
    if got != want:
        bad.append("stores %s, specified %s" % (sorted(got - want), sorted(want - got)))
    if moved is None or moved[1] != PARENT_IDX:
        bad.append("the moved parent's slot is %s" % (moved,))
    if bad:
        ctx.fail(R, "swap-remove", "remove_parent's index bookkeeping differs from the specification: %s. After removing a "
                 "parent that is not the last one, the moved parent and the child disagree about their positions; a later "
                 "unlink indexes out of bounds or removes the wrong edge" % "; ".join(bad)[:900], fn=F)
    else:
        ctx.ok(R, "swap-remove")
    ctx.floor(R, len(got) + (1 if moved else 0), 4)


data_remove_parent.rule_id = "C11.DATA-remove-parent"


def heights_edge_ends(ctx, prog):
    """Height bookkeeping: the adjust pass names the right ends of every edge and visits every rhs node of a bind
    (C02.DATA-edge-ends, C02.GUARD-every-rhs-node), otherwise a needed node ends at or below the bind that created it."""
    from .c02 import data_edge_ends, guard_every_rhs_node
    from .engine import run_relabelled
    run_relabelled(ctx, prog, data_edge_ends, "C02.DATA-edge-ends", "C11.DATA-heights")
    guard_every_rhs_node(ctx, prog, "C11.DATA-heights")


heights_edge_ends.rule_id = "C11.DATA-heights"

TRUNCATING_OK = {
    ("incremental::recompute_heap::RecomputeHeap::set_max_height_allowed", "skip"):
        "asserts that the buckets above the new limit are empty (debug check over the tail)",
}


def wmc_truncating(ctx, prog):
    """Engine walks (parents, observers, handlers, nodes created on a bind's rhs, queues) must visit every element:
    an adaptor that can end the walk early (map_while, take_while, take, skip, skip_while, step_by) silently drops
    the elements after a dead weak entry / beyond a count. The uses that exist are frozen with their reason."""
    R = "C11.WMC-truncating"
    ctx.rule(R, "no truncating iterator adaptor in the engine crates outside the frozen table")
    pat = r"Iterator::(map_while|take_while|take|skip|skip_while|step_by)$"
    n = 0
    for t in prog.calls_to(pat):
        if not t.fn.crate.startswith("incremental") or t.j.get("from_expansion"):
            continue
        n += 1
        name = t.callee.rsplit("::", 1)[-1]
        ctx.site(R, t.fn, "bb{} {}".format(t.bb, name))
        key = (q.strip_generics(t.fn.root), name)
        inst = "adaptor:{}:{}".format(t.fn.short, name)
        if key in TRUNCATING_OK:
            ctx.ok(R, inst, TRUNCATING_OK[key])
        else:
            ctx.fail(R, inst, "{} in {}: the walk can stop before the last element (not in the frozen table of "
                     "audited uses)".format(name, t.fn.short), fn=t.fn, span=t.span, kind="anchor")
    ctx.ok(R, "scan", "%d adaptor call(s) inspected" % n)      # zero is the expected count in release builds


LOOP_EXIT_ON_DEAD_OK = {
    "incremental::node::Node::maybe_change_value_manual":
        "existing behaviour: a dead parent ends change propagation with None (commented `should probably be an error`)",
    "<incremental::node::Node as incremental::node::ErasedNode>::child_changed":
        "the exit is the `?` on the inner child_changed result (MapRef forwarding), not on the upgrade itself",
}


def wmc_loop_exit_on_dead(ctx, prog, R="C11.WMC-truncating"):
    """Same clause for hand-written loops: a loop over an engine queue that LEAVES the loop when a weak entry is dead
    (`while let Some(x) = q.pop().and_then(upgrade)`) drops every entry behind the dead one; dead entries are skipped
    with `continue`."""
    n = 0
    for F in prog.fns.values():
        if not F.crate.startswith("incremental") or F.j.get("from_expansion"):
            continue
        c = F.cfg()
        loops = c.loops()
        if not loops:
            continue
        du = None
        for h, body in loops.items():
            for b in body:
                t = F.blocks[b]["term"]
                if t["k"] != "switch":
                    continue
                outs = [x for x in c.succ[b] if x not in body and F.blocks[x]["term"]["k"] != "unreachable" and c._can_return(x)]
                if not outs:
                    continue
                du = du or DefUse(F)
                e = expr(F, t["on"], du)
                via_upgrade = mentions(e, lambda x: x[0] == "call" and x[1].endswith("::upgrade"))
                if not via_upgrade:
                    # `queue.pop().and_then(|w| w.upgrade())`: the upgrade sits in a closure the tested value went through
                    from .expr import closure_paths
                    inner = e[1] if e[0] == "discr" else e
                    on_option = inner[0] == "call" and q.strip_generics(inner[1]).startswith("core::option::Option::")
                    for cp in (closure_paths(e) if on_option else ()):
                        G = prog.fn(cp)
                        if G is not None and any((t.callee or "").endswith("::upgrade") or q.callee_is(t, "Weak::upgrade")
                                                 for t in G.calls()):
                            via_upgrade = True
                if not via_upgrade:
                    continue
                n += 1
                ctx.site(R, F, "bb{} loop exit on {}".format(b, show(e)[:60]))
                inst = "loop-exit-on-dead:" + F.short
                if q.strip_generics(F.root) in LOOP_EXIT_ON_DEAD_OK:
                    ctx.ok(R, inst, LOOP_EXIT_ON_DEAD_OK[q.strip_generics(F.root)])
                else:
                    ctx.fail(R, inst, "a loop in {} ends when an entry's weak reference is dead ({}): the entries behind it "
                             "are not processed in this pass (a dead entry must be skipped, not end the walk)"
                             .format(F.short, show(e)[:80]), fn=F)
    return n


_wmc_truncating_adaptors = wmc_truncating


def wmc_truncating(ctx, prog):      # noqa: F811
    _wmc_truncating_adaptors(ctx, prog)
    wmc_loop_exit_on_dead(ctx, prog)


wmc_truncating.rule_id = "C11.WMC-truncating"

def data_cursor(ctx, prog):
    """The recompute heap's scan cursor never passes pending work (C19.DATA-cursor): a queued needed node that
    remove_min can no longer see stays needed-and-stale outside the heap's reach."""
    from .c19 import data_cursor as f
    f(ctx, prog, "C11.DATA-cursor")


data_cursor.rule_id = "C11.DATA-cursor"

RULES = [sign_handlers, sign_heaps, wmw_markers, guard_stats, dom_invalidate, dom_bracket, data_swap, heights_edge_ends, wmc_truncating, data_remove_parent, data_cursor]

# control signature of the bookkeeping effects this property depends on (rules/ctrlsig.py)
from .ctrlsig import make_rule as _ctrl_rule  # noqa: E402
RULES.append(_ctrl_rule("C11"))
