"""Run the incrfacts driver over /repo's *current working tree* and cache the fact files.

Facts are cached under /verif/.work/facts/<tree-hash>/<config>/ where <tree-hash> is the sha256 of
every file under /repo that cargo reads (sources, manifests, lockfile, README that lib.rs includes).
A changed tree therefore always gets re-extracted; an unchanged one is extracted once per config.
"""
import fcntl
import hashlib
import json
import os
import shutil
import subprocess
import sys
import time

VERIF = os.path.dirname(os.path.dirname(os.path.abspath(__file__)))
REPO = os.environ.get("VERIF_REPO", "/repo")
WORK = os.path.join(VERIF, ".work")
DRIVER_SRC = os.path.join(VERIF, "engine", "incrfacts")
DRIVER_TARGET = os.path.join(WORK, "driver-target")
DRIVER_BIN = os.path.join(DRIVER_TARGET, "debug", "incrfacts")

CRATES = ["incremental", "incremental_map", "incremental_macros"]

# config -> (cargo args, extra rustflags, crates expected)
CONFIGS = {
    "dbg": (["--workspace", "--features", "incremental-map/im"], "", CRATES),
    "rel": (["--workspace", "--features", "incremental-map/im"],
            "-C debug-assertions=off -C overflow-checks=off", CRATES),
    "incrsan": (["-p", "incremental", "-p", "incremental-map", "--features",
                 "incremental/nightly-incrsan,incremental-map/im"], "", CRATES[:2]),
    "miny": (["-p", "incremental", "-p", "incremental-map", "--features",
              "incremental/nightly-miny,incremental-map/im"], "", CRATES[:2]),
    # without the macros crate, i.e. without the `slotmap` feature that it switches on in the core crate
    "plain": (["-p", "incremental", "-p", "incremental-map", "--features", "incremental-map/im"], "", CRATES[:2]),
}
QUICK_CONFIGS = ["dbg", "rel"]
THOROUGH_CONFIGS = ["dbg", "rel", "incrsan", "miny", "plain"]

_SUFFIXES = (".rs", ".toml", ".lock", ".md")


def tree_hash(repo=None):
    repo = repo or REPO
    h = hashlib.sha256()
    files = []
    for root, dirs, fs in os.walk(repo):
        dirs[:] = sorted(d for d in dirs if d not in (".git", "target"))
        for f in sorted(fs):
            if f.endswith(_SUFFIXES):
                files.append(os.path.join(root, f))
    for p in files:
        rel = os.path.relpath(p, repo)
        h.update(rel.encode())
        h.update(b"\0")
        with open(p, "rb") as fh:
            h.update(fh.read())
        h.update(b"\0")
    # the driver is part of the cache key too
    for root, dirs, fs in os.walk(os.path.join(DRIVER_SRC, "src")):
        for f in sorted(fs):
            with open(os.path.join(root, f), "rb") as fh:
                h.update(fh.read())
    return h.hexdigest()[:24], len(files)


def nightly_sysroot():
    return subprocess.check_output(["rustc", "+nightly", "--print", "sysroot"], text=True).strip()


def _env_base():
    env = dict(os.environ)
    env["CARGO_NET_OFFLINE"] = "true"
    env.pop("RUSTC_WRAPPER", None)
    return env


def build_driver(log=sys.stderr):
    os.makedirs(WORK, exist_ok=True)
    lock = open(os.path.join(WORK, "driver.lock"), "w")
    fcntl.flock(lock, fcntl.LOCK_EX)
    try:
        env = _env_base()
        env["CARGO_TARGET_DIR"] = DRIVER_TARGET
        t0 = time.time()
        r = subprocess.run(["cargo", "+nightly", "build", "--offline"], cwd=DRIVER_SRC, env=env,
                           stdout=subprocess.PIPE, stderr=subprocess.STDOUT, text=True)
        if r.returncode != 0 or not os.path.exists(DRIVER_BIN):
            log.write(r.stdout)
            raise SystemExit("ERROR: cannot build the incrfacts driver")
        return time.time() - t0
    finally:
        fcntl.flock(lock, fcntl.LOCK_UN)
        lock.close()


class ExtractError(Exception):
    pass


def extract(config, repo=None, log=sys.stderr, thash=None):
    """Return the directory with fact files for `config` of the current tree (extracting if needed)."""
    repo = repo or REPO
    if thash is None:
        thash, _ = tree_hash(repo)
    _args, _flags, _ = CONFIGS[config]
    cfg_key = hashlib.sha256((" ".join(_args) + "|" + _flags).encode()).hexdigest()[:8]
    out = os.path.join(WORK, "facts", thash, "%s-%s" % (config, cfg_key))
    done = os.path.join(out, "DONE")
    if os.path.exists(done):
        return out
    os.makedirs(os.path.join(WORK, "facts", thash), exist_ok=True)
    lockf = open(os.path.join(WORK, "facts", thash, config + ".lock"), "w")
    fcntl.flock(lockf, fcntl.LOCK_EX)
    try:
        if os.path.exists(done):
            return out
        build_driver(log)
        cargo_args, extra_flags, expect = CONFIGS[config]
        if os.path.isdir(out):
            shutil.rmtree(out)
        os.makedirs(out)
        # one target dir per config, shared by all trees; a lock serialises cargo runs on it
        sfx = os.environ.get("VERIF_TGT_SUFFIX", "")
        tgt = os.path.join(WORK, "tgt", config + sfx)
        os.makedirs(tgt, exist_ok=True)
        tlock = open(os.path.join(WORK, "tgt", config + sfx + ".lock"), "w")
        fcntl.flock(tlock, fcntl.LOCK_EX)
        try:
            # cargo's freshness cache would skip the wrapper: drop the members' fingerprints
            fp = os.path.join(tgt, "debug", ".fingerprint")
            if os.path.isdir(fp):
                for d in os.listdir(fp):
                    if d.startswith("incremental"):
                        shutil.rmtree(os.path.join(fp, d), ignore_errors=True)
            env = _env_base()
            env["LD_LIBRARY_PATH"] = nightly_sysroot() + "/lib" + (
                ":" + env["LD_LIBRARY_PATH"] if env.get("LD_LIBRARY_PATH") else "")
            env["RUSTFLAGS"] = ("-Zmir-opt-level=0 -Awarnings " + extra_flags).strip()
            env["RUSTC_WORKSPACE_WRAPPER"] = DRIVER_BIN
            env["INCRFACTS_OUT"] = out
            env["INCRFACTS_CONFIG"] = config
            env["CARGO_TARGET_DIR"] = tgt
            env["CARGO_INCREMENTAL"] = "0"
            t0 = time.time()
            r = subprocess.run(["cargo", "+nightly", "check", "--offline"] + cargo_args, cwd=repo,
                               env=env, stdout=subprocess.PIPE, stderr=subprocess.STDOUT, text=True)
            dt = time.time() - t0
        finally:
            fcntl.flock(tlock, fcntl.LOCK_UN)
            tlock.close()
        if r.returncode != 0:
            log.write(r.stdout[-6000:])
            raise ExtractError("cargo check failed for config %s (the tree does not build)" % config)
        for c in expect:
            p = os.path.join(out, c + ".json")
            if not os.path.exists(p):
                raise ExtractError("no fact file for crate %s in config %s (driver was skipped?)"
                                   % (c, config))
        with open(done, "w") as fh:
            json.dump({"config": config, "wall_s": dt, "tree": thash}, fh)
        return out
    finally:
        fcntl.flock(lockf, fcntl.LOCK_UN)
        lockf.close()


def prune_cache(keep=6):
    """Keep only the most recently used fact directories."""
    base = os.path.join(WORK, "facts")
    if not os.path.isdir(base):
        return
    ds = [os.path.join(base, d) for d in os.listdir(base) if os.path.isdir(os.path.join(base, d))]
    ds.sort(key=lambda p: os.path.getmtime(p), reverse=True)
    for p in ds[keep:]:
        shutil.rmtree(p, ignore_errors=True)


if __name__ == "__main__":
    cfgs = sys.argv[1:] or QUICK_CONFIGS
    th, n = tree_hash()
    print("tree", th, "files", n)
    for c in cfgs:
        t0 = time.time()
        print(c, extract(c, thash=th), "%.1fs" % (time.time() - t0))
