"""C04 — well-formed programs never panic, debug or release (structural clauses)."""
from collections import Counter

from . import q, weak
from .callgraph import write_summary, direct_writes, edges
from .cfg import DefUse, origins
from .effects import accesses
from .engine import load_program
from .facts import strip_generics
from .shared import rcb_alias

EXPLANATION = (
    "Decided clause of C04: (WEAK) a Weak::upgrade() result is never unwrapped when the weak reference "
    "comes from a source that may dangle by design (bind-scope node lists, state queues, observer tables, "
    "incremental-map per-key nodes); every Weak field and every upgrade().unwrap() site is classified, "
    "unclassified ones fail closed; (RCB) no two RefCell guards on the same field of possibly aliased nodes "
    "are alive at once; (CFGD) code present only with debug assertions has no engine side effect, so the "
    "debug and release builds run the same algorithm; (GUARD-bypass, shared with C02) nodes are recomputed "
    "out of heap order only under a heap-consulting guard, which is what the debug assertion "
    "p.needs_to_be_computed() relies on.")
NOT_DECIDED = ("Absence of every other panic (index arithmetic, internal debug assertions holding on all "
               "histories, RefCell re-borrows through user callbacks other than the listed known finding).")
ASSUMPTIONS = ["alias table C.2 and may-dangle table C.1 of DESIGN.md"]

ALIVE_UPVARS = {
    "result_weak": "the result expert node is the only parent of lhs_change, which runs only while it is necessary",
    "lhs_change": "weak reference of a map_cyclic node to itself, used inside its own closure",
}


def weak_core(ctx, prog):
    R = "C04.WEAK"
    ctx.rule(R, "upgrade() results of may-dangle weak sources are inspected, never unwrapped; every Weak "
                "field and every upgrade().unwrap() site is classified (fail closed)")
    n = weak.check_weak(ctx, prog, R, "incremental")
    m = weak.weak_fields_classified(ctx, prog, R)
    ctx.floor(R, n, 30)
    ctx.floor(R + "", m, 20)


def weak_map(ctx, prog, R="C04.WEAK-map"):
    ctx.rule(R, "incremental-map: per-key expert nodes read out of the prev_nodes table are only upgraded "
                "with the result inspected; the panicking WeakNode convenience methods are not used on them")
    n = 0
    for F in prog.fns.values():
        if F.crate != "incremental_map":
            continue
        du = None
        for t in F.calls():
            c = strip_generics(t.callee or "")
            if c not in weak.PANICKING_WEAK_API and c not in weak.UPGRADES:
                continue
            du = du or DefUse(F)
            os_ = origins(F, t.arg_place(0), du)
            elem = [o for o in os_ if o.kind == "via" and strip_generics(str(o.what)) in weak.COLLECTION_READS]
            upv = sorted({str(o.what).split(":", 1)[-1] for o in os_ if o.kind == "upvar"})
            n += 1
            meth = c.rsplit("::", 1)[-1]
            ctx.site(R, F, "bb%d %s on %s" % (t.bb, meth, "table element" if elem else ",".join(upv) or "?"))
            if c in weak.PANICKING_WEAK_API:
                if elem:
                    ctx.fail(R, "elem:" + meth, "WeakNode::%s panics on a dead node, but the per-key node read from "
                             "the table is kept alive only by the user's function (it is dead when that function "
                             "ignores its input)" % meth, fn=F, span=t.span)
                elif upv and all(u in ALIVE_UPVARS for u in upv):
                    ctx.ok(R, "upvar:%s:%s" % (upv[0], meth), ALIVE_UPVARS[upv[0]])
                else:
                    ctx.fail(R, "unknown:" + meth, "WeakNode::%s on a weak node of unknown origin %s" % (meth, os_),
                             fn=F, span=t.span, kind="anchor")
            else:
                # an upgrade: is its result unwrapped?
                unwrapped = []
                for t2 in F.calls():
                    if q.callee_is(t2, "core::option::Option::unwrap", "core::option::Option::expect"):
                        o2 = origins(F, t2.arg_place(0), du)
                        if any(o.site is t for o in o2 if o.site is not None):
                            unwrapped.append(t2)
                if not unwrapped:
                    ctx.ok(R, "upgrade:inspected:" + ("elem" if elem else ",".join(upv)))
                elif elem:
                    ctx.fail(R, "elem:upgrade-unwrap", "the per-key node read from the table is upgraded and "
                             "unwrapped; it is dead when the user's function ignored its input", fn=F,
                             span=unwrapped[0].span)
                elif upv and all(u in ALIVE_UPVARS for u in upv):
                    ctx.ok(R, "upvar:%s:upgrade" % upv[0], ALIVE_UPVARS[upv[0]])
                else:
                    ctx.fail(R, "unknown:upgrade-unwrap", "upgrade().unwrap() on a weak value of unknown origin",
                             fn=F, span=unwrapped[0].span, kind="anchor")
    ctx.floor(R, n, 10)


def rcb(ctx, prog):
    R = "C04.RCB-alias"
    ctx.rule(R, "no function of the core crate holds two guards on the same RefCell field of two nodes that "
                "may alias (duplicate inputs / duplicate parents), at least one of them mutable")
    rcb_alias(ctx, prog, R, floor=5)


# ---------------------------------------------------------------------------------------------
# CFGD: debug-only code has no engine side effect

ALLOWED_DEBUG_FIELDS = ("incremental::state::OnlyInDebug.", "incremental::node::Node.graphviz_user_data",
                        "incremental::state::State.only_in_debug")


def _allowed_field(f):
    return any(f.startswith(p) for p in ALLOWED_DEBUG_FIELDS)


def cfgd(ctx, prog):
    R = "C04.CFGD"
    ctx.rule(R, "facts present with debug assertions and absent without them are confined to assertions, "
                "tracing, reads, and writes of State.only_in_debug / graphviz_user_data")
    if prog.config != "dbg":
        return
    try:
        rel = load_program("rel")
    except Exception as e:  # pragma: no cover
        ctx.fail(R, "rel", "cannot load the release-configuration facts: %r" % e, kind="crash")
        return
    Wd = write_summary(prog)
    n = 0
    dw_d = direct_writes(prog)
    dw_r = direct_writes(rel)
    def live(a):
        # `if cfg!(debug_assertions) {..}` is a switch on a literal: only count feasible blocks
        return a.bb in a.fn.cfg().reachable_from_entry()

    acc_d = Counter((a.fn.path, a.field, a.kind) for a in accesses(prog) if a.write and live(a))
    acc_r = Counter((a.fn.path, a.field, a.kind) for a in accesses(rel) if a.write and live(a))
    # 1. direct writes that exist only in dbg
    for (fp, field, kind), cnt in sorted(acc_d.items()):
        extra = cnt - acc_r.get((fp, field, kind), 0)
        if extra <= 0:
            continue
        n += 1
        F = prog.fns[fp]
        ctx.site(R, F, "dbg-only write %s %s" % (kind, field))
        if _allowed_field(field):
            ctx.ok(R, "write:%s:%s" % (F.short, field.rsplit(".", 1)[-1]))
        else:
            ctx.fail(R, "write:%s:%s" % (F.short, field.rsplit(".", 1)[-1]),
                     "engine field %s is written (%s) only when debug assertions are on: the two build "
                     "configurations no longer run the same algorithm" % (field, kind), fn=F)
    # 2. calls that exist only in dbg: their transitive write summary must be allow-listed
    for fp, F in sorted(prog.fns.items()):
        if not F.crate.startswith("incremental"):
            continue
        G = rel.fns.get(fp)
        cd = Counter()
        sites = {}
        rd = F.cfg().reachable_from_entry()
        for t in F.calls():
            if t.bb not in rd:
                continue
            for T in prog.call_targets(t):
                cd[T.path] += 1
                sites.setdefault(T.path, t)
        cr = Counter()
        if G is not None:
            rr = G.cfg().reachable_from_entry()
            for t in G.calls():
                if t.bb not in rr:
                    continue
                for T in rel.call_targets(t):
                    cr[T.path] += 1
        for callee, cnt in cd.items():
            if cnt - cr.get(callee, 0) <= 0:
                continue
            n += 1
            t = sites[callee]
            ctx.site(R, F, "dbg-only call %s" % q.strip_generics(callee).rsplit("::", 1)[-1])
            bad = sorted(f for f in Wd.get(callee, ()) if not _allowed_field(f))
            inst = "call:%s->%s" % (F.short, prog.fns[callee].short)
            if bad:
                ctx.fail(R, inst, "a call present only with debug assertions reaches writes of engine state "
                         "(%s%s)" % (", ".join(bad[:3]), "…" if len(bad) > 3 else ""), fn=F, span=t.span)
            else:
                ctx.ok(R, inst)
    # 3. rel-only writes (cfg(not(debug_assertions)) code)
    for (fp, field, kind), cnt in sorted(acc_r.items()):
        extra = cnt - acc_d.get((fp, field, kind), 0)
        if extra > 0 and not _allowed_field(field):
            n += 1
            F = rel.fns[fp]
            ctx.fail(R, "rel-write:%s:%s" % (F.short, field.rsplit(".", 1)[-1]),
                     "engine field %s is written (%s) only when debug assertions are off" % (field, kind), fn=F)
    ctx.floor(R, n, 20)


cfgd.configs = ("dbg",)


# ---------------------------------------------------------------------------------------------
# RCB-user: guards held across update handlers vs. the API a handler may call

def rcb_user(ctx, prog):
    R = "C04.RCB-user"
    ctx.rule(R, "no RefCell guard that is alive while an update handler runs (status RunningOnUpdateHandlers, where "
                "every public call except stabilise is legal) guards a cell that the public API borrows in a "
                "conflicting mode")
    import re
    from .c07 import BETWEEN_STABILISES
    from .callgraph import reachable, edges
    from .guards import guards_in
    from .usercalls import user_calls
    api_pats = list(BETWEEN_STABILISES) + [r"^incremental::public::WeakState::.*$", r"^incremental::state::State::unsubscribe$"]
    entries = sorted({f for f in prog.fns for pat in api_pats if re.search(pat, f)})
    if len(entries) < 40:
        ctx.missing(R, "public API entry points")
        return
    reach_api = reachable(prog, entries)
    api_borrows = {}
    for a in accesses(prog):
        if (a.fn.path in reach_api or a.fn.root in reach_api) and a.kind in ("borrow", "borrow_mut", "replace", "take"):
            api_borrows.setdefault(a.field, {}).setdefault("mut" if a.kind != "borrow" else "shr", a)
    # which functions may (transitively) run an update handler
    E = edges(prog)
    runs = {u.site.fn.path for u in user_calls(prog) if u.role == "update_handler"}
    changed = True
    while changed:
        changed = False
        for f in prog.fns:
            if f in runs:
                continue
            if any(c in runs for c in E.get(f, ())):
                runs.add(f)
                changed = True
    n = 0
    for F in prog.fns.values():
        if F.crate != "incremental" or F.path not in runs:
            continue
        for g in guards_in(prog, F):
            live = g.live_blocks()
            hit = None
            for t in F.calls():
                if t.bb not in live:
                    continue
                tg = prog.call_targets(t)
                is_user = any(u.site is t or (u.site.fn is F and u.site.bb == t.bb) for u in user_calls(prog)
                              if u.role == "update_handler")
                if is_user or any(T.path in runs for T in tg):
                    hit = t
                    break
            if hit is None:
                continue
            n += 1
            ctx.site(R, F, "%r alive across %s" % (g, q.short_path(hit.callee or "handler")))
            modes = api_borrows.get(g.field, {})
            conflict = None
            if g.mutable and modes:
                conflict = modes.get("mut") or modes.get("shr")
            elif not g.mutable and "mut" in modes:
                conflict = modes["mut"]
            inst = "%s:%s" % (g.field.rsplit("::", 1)[-1], "RefMut" if g.mutable else "Ref")
            if conflict is None:
                ctx.ok(R, inst, "not borrowed in a conflicting mode by any handler-callable API")
            else:
                ctx.fail(R, inst, "%s holds %s on %s while update handlers run, and the handler-callable API borrows the "
                         "same cell in %s (bb%d): a handler that calls it on the object being notified panics with "
                         "`already borrowed`" % (F.short, "RefMut" if g.mutable else "Ref", g.field,
                                                  conflict.fn.short, conflict.bb), fn=F, span=g.call.span)
    ctx.floor(R, n, 4)


def guard_bypass(ctx, prog):
    from .c02 import guard_bypass as gb
    gb(ctx, prog, "C04.GUARD-bypass")


def data_swap(ctx, prog):
    from .c11 import data_swap as ds
    ds(ctx, prog, "C04.DATA-swap")


for _f, _id in ((weak_core, "C04.WEAK"), (weak_map, "C04.WEAK-map"), (rcb, "C04.RCB-alias"), (cfgd, "C04.CFGD"),
                (guard_bypass, "C04.GUARD-bypass"), (rcb_user, "C04.RCB-user"), (data_swap, "C04.DATA-swap")):
    _f.rule_id = _id

def dom_end(ctx, prog):
    """stabilise_end applies the deferred var writes before it tears down dead vars (break_rc_cycle): the other
    order reaches `did_set_var_while_not_stabilising` on a var whose watch node is gone and panics. Same rule as
    C08.DOM-end."""
    from .engine import run_relabelled
    from .c08 import dom_end as f
    run_relabelled(ctx, prog, f, "C08.DOM-end", "C04.DOM-end")


dom_end.rule_id = "C04.DOM-end"

def sib_queue_len(ctx, prog):
    """Both heaps are sized limit+1 everywhere: if one of them is a bucket short, a graph whose height is within
    the configured maximum passes the limit test of one heap and panics on an index/assertion in the other. Same
    rule as C19.SIB-queue-len."""
    from .engine import run_relabelled
    from .c19 import sib_queue_len as f
    run_relabelled(ctx, prog, f, "C19.SIB-queue-len", "C04.SIB-queue-len")


sib_queue_len.rule_id = "C04.SIB-queue-len"

def rcb_memoize(ctx, prog):
    """weak_memoize_fn releases its table borrow before the memoised function runs: the function may call the
    memoised closure recursively (RefCell already borrowed otherwise). Same rule as C20.GUARD-lookup."""
    from .engine import run_relabelled
    from .c20 import guard_lookup as f
    run_relabelled(ctx, prog, f, "C20.GUARD-lookup", "C04.RCB-memoize")


rcb_memoize.rule_id = "C04.RCB-memoize"

def data_remove_parent(ctx, prog):
    """A wrong index written by remove_parent's swap-remove makes a later unlink index out of bounds (panic in debug
    and release). Same rule as C11.DATA-remove-parent."""
    from .c11 import data_remove_parent as f
    f(ctx, prog, "C04.DATA-remove-parent")


data_remove_parent.rule_id = "C04.DATA-remove-parent"

RULES = [weak_core, weak_map, rcb, cfgd, guard_bypass, rcb_user, data_swap, dom_end, sib_queue_len, rcb_memoize, data_remove_parent]
