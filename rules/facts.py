"""Loader and query helpers over the JSON facts written by engine/incrfacts."""
import json
import os
import re
from collections import defaultdict

CORE = "incremental"
MAP = "incremental_map"


class Place:
    __slots__ = ("local", "proj")

    def __init__(self, j):
        self.local = j["local"]
        self.proj = j["proj"]

    def fields(self):
        """Names of field projections, e.g. ['incremental::node::Node.parents']."""
        return [e["field"] for e in self.proj if isinstance(e, dict) and "field" in e]

    def last_field(self):
        f = self.fields()
        return f[-1] if f else None

    def has_field(self, name):
        return any(f == name or f.endswith("." + name) or f == name for f in self.fields())

    def is_local(self):
        return not self.proj

    def downcasts(self):
        return [e["downcast"] for e in self.proj if isinstance(e, dict) and "downcast" in e]

    def __repr__(self):
        s = "_%d" % self.local
        for e in self.proj:
            if e == "deref":
                s = "(*%s)" % s
            elif isinstance(e, dict) and "field" in e:
                s += "." + e["field"].rsplit(".", 1)[-1].rsplit("::", 1)[-1]
            elif isinstance(e, dict) and "downcast" in e:
                s = "(%s as %s)" % (s, e["downcast"])
            elif isinstance(e, dict) and "index" in e:
                s += "[_%d]" % e["index"]
            elif isinstance(e, dict) and "const_index" in e:
                s += "[%d]" % e["const_index"]
            else:
                s += "[%s]" % (e,)
        return s


def op_place(o):
    """Place of a copy/move operand or None for constants."""
    if o is None:
        return None
    if "copy" in o:
        return Place(o["copy"])
    if "move" in o:
        return Place(o["move"])
    return None


def op_const(o):
    return o.get("const") if o else None


def op_const_int(o):
    c = op_const(o)
    if c is not None and "int" in c:
        return c["int"]
    return None


def op_repr(o):
    p = op_place(o)
    if p is not None:
        return repr(p)
    c = op_const(o)
    if c is not None:
        if "fn" in c:
            return "fn " + c["fn"]
        if "int" in c:
            return "const %s" % c["int"]
        return "const " + str(c.get("text"))
    return str(o)


class Stmt:
    __slots__ = ("fn", "bb", "idx", "j", "dst", "rv")

    def __init__(self, fn, bb, idx, j):
        self.fn, self.bb, self.idx, self.j = fn, bb, idx, j
        self.dst = Place(j["dst"]) if "dst" in j else None
        self.rv = j.get("rv")

    @property
    def kind(self):
        return self.j["k"]

    @property
    def span(self):
        return self.j.get("span", "?")

    @property
    def macros(self):
        return self.j.get("macros", [])

    def __repr__(self):
        return "%s bb%d[%d] %s = %s" % (self.fn.short, self.bb, self.idx, self.dst, rv_repr(self.rv))


def rv_repr(rv):
    if rv is None:
        return "?"
    if "use" in rv:
        return op_repr(rv["use"])
    if "ref" in rv:
        return ("&mut " if rv.get("mut") else "&") + repr(Place(rv["ref"]))
    if "discr" in rv:
        return "discriminant(%r)" % Place(rv["discr"])
    if "bin" in rv:
        return "%s(%s, %s)" % (rv["bin"][0], op_repr(rv["bin"][1]), op_repr(rv["bin"][2]))
    if "un" in rv:
        return "%s(%s)" % (rv["un"][0], op_repr(rv["un"][1]))
    if "agg" in rv:
        a = rv["agg"]
        if isinstance(a, dict) and "adt" in a:
            nm = a["adt"].rsplit("::", 1)[-1] + "::" + a["variant"]
        elif isinstance(a, dict) and "closure" in a:
            nm = "closure " + a["closure"].rsplit("::", 2)[-1]
        else:
            nm = str(a)
        return "%s(%s)" % (nm, ", ".join(op_repr(o) for o in rv["ops"]))
    if "cast" in rv:
        return "%s as %s" % (op_repr(rv["cast"]), rv["to"])
    return json.dumps(rv)[:80]


class Term:
    __slots__ = ("fn", "bb", "j")

    def __init__(self, fn, bb, j):
        self.fn, self.bb, self.j = fn, bb, j

    @property
    def kind(self):
        return self.j["k"]

    @property
    def span(self):
        return self.j.get("span", "?")

    @property
    def macros(self):
        return self.j.get("macros", [])

    # ---- calls
    @property
    def is_call(self):
        return self.j["k"] == "call"

    @property
    def callee(self):
        """Most specific callee identity: resolved instance if known, else the declared callee."""
        return self.j.get("resolved") or self.j.get("callee")

    @property
    def declared(self):
        return self.j.get("callee")

    @property
    def args(self):
        return self.j.get("args", [])

    def arg_place(self, i):
        a = self.args
        return op_place(a[i]) if i < len(a) else None

    @property
    def dst(self):
        return Place(self.j["dst"]) if "dst" in self.j else None

    @property
    def target(self):
        return self.j.get("target")

    @property
    def generics(self):
        return self.j.get("generics", [])

    def __repr__(self):
        if self.is_call:
            return "%s bb%d call %s(%s) @%s" % (self.fn.short, self.bb, short_path(self.callee or "?"),
                                                ", ".join(op_repr(a) for a in self.args), self.span)
        return "%s bb%d %s @%s" % (self.fn.short, self.bb, self.kind, self.span)


_GEN = re.compile(r"::<[^<>]*(?:<[^<>]*(?:<[^<>]*>[^<>]*)*>[^<>]*)*>")


def strip_generics(path):
    """core::cell::Cell::<T>::get -> core::cell::Cell::get (only turbofish segments)."""
    prev = None
    while prev != path:
        prev = path
        path = _GEN.sub("", path)
    return path


def short_path(p):
    if p is None:
        return "?"
    p = strip_generics(p)
    p = re.sub(r"\b(?:[a-z_][a-z0-9_]*::)+(?=[A-Z<])", "", p)
    p = re.sub(r"\b(?:[a-z_][a-z0-9_]*::)+(?=[a-z_][a-z0-9_]*(?:::\{|$|>))", "", p)
    return p


class Fn:
    def __init__(self, crate, j):
        self.crate = crate
        self.j = j
        self.path = j["path"]
        self.name = j.get("name")
        self.is_closure = j["def_kind"] == "Closure"
        self.root = j.get("root", self.path)
        self.parent = j.get("parent")
        self.span = j["span"]
        self.arg_count = j["arg_count"]
        self.blocks = j["blocks"]
        self.locals = {l["id"]: l for l in j["locals"]}
        self.short = short_path(self.path)
        self._stmts = None
        self._terms = None
        self._cfg = None

    @property
    def impl_trait(self):
        return self.j.get("impl_trait")

    @property
    def trait_item(self):
        return self.j.get("trait_item")

    @property
    def impl_self_adt(self):
        return self.j.get("impl_self_adt")

    @property
    def vis(self):
        return self.j.get("vis")

    def local_ty(self, l):
        return self.locals[l]["ty"]

    def local_tree(self, l):
        return self.locals[l]["tree"]

    def local_name(self, l):
        return self.locals[l].get("name")

    def local_named(self, name):
        return [i for i, l in self.locals.items() if l.get("name") == name]

    def stmts(self):
        if self._stmts is None:
            out = []
            for b in self.blocks:
                for i, s in enumerate(b["stmts"]):
                    if s["k"] in ("assign", "setdiscr"):
                        out.append(Stmt(self, b["id"], i, s))
            self._stmts = out
        return self._stmts

    def terms(self):
        if self._terms is None:
            self._terms = [Term(self, b["id"], b["term"]) for b in self.blocks]
        return self._terms

    def term(self, bb):
        return self.terms()[bb]

    def calls(self, pred=None):
        for t in self.terms():
            if t.is_call and (pred is None or pred(t)):
                yield t

    def is_cleanup(self, bb):
        return self.blocks[bb]["cleanup"]

    def cfg(self):
        if self._cfg is None:
            from . import cfg as _cfg
            self._cfg = _cfg.CFG(self)
        return self._cfg

    def promoted_value(self, index):
        """Value of promoted constant #index as ('agg', 'Adt::Variant', ops) / ('const', v) / None."""
        for pr in self.j.get("promoted", []):
            if pr["index"] != index:
                continue
            defs = {}
            for b in pr["blocks"]:
                for s in b["stmts"]:
                    if s["k"] == "assign" and not s["dst"]["proj"]:
                        defs[s["dst"]["local"]] = s["rv"]

            def ev(local, depth=0):
                rv = defs.get(local)
                if rv is None or depth > 8:
                    return None
                if "ref" in rv and not rv["ref"]["proj"]:
                    return ev(rv["ref"]["local"], depth + 1)
                if "use" in rv:
                    o = rv["use"]
                    pl = op_place(o)
                    if pl is not None and pl.is_local():
                        return ev(pl.local, depth + 1)
                    c = op_const(o)
                    if c is not None:
                        return ("const", c.get("int", c.get("text")))
                if "agg" in rv and isinstance(rv["agg"], dict) and "adt" in rv["agg"]:
                    a = rv["agg"]
                    if a.get("is_enum"):
                        return ("agg", a["adt"].rsplit("::", 1)[-1] + "::" + a["variant"], (), a.get("discr"))
                    return ("agg", a["adt"].rsplit("::", 1)[-1] + "::" + a["variant"], ())
                if "agg" in rv:
                    return ("agg", str(rv["agg"]), ())
                return None
            return ev(0)
        return None

    def block_stmts(self, bb):
        return [s for s in self.stmts() if s.bb == bb]

    def __repr__(self):
        return "<Fn %s>" % self.path


class Program:
    """All crates of one configuration."""

    def __init__(self, facts_dir, config, inline=True):
        self.config = config
        self.inlined_helpers = []
        self.dir = facts_dir
        self.crates = {}
        self.fns = {}
        self.adts = {}
        self.impls = []
        self.traits = {}
        self.aliases = {}
        texts = {}
        for fn in sorted(os.listdir(facts_dir)):
            if not fn.endswith(".json") or fn == "witness.json":
                continue
            with open(os.path.join(facts_dir, fn)) as fh:
                texts[fn] = fh.read()
        self.closure_renames = {}
        if inline:
            from . import inline as _inline
            texts, self.closure_renames = _inline.align_closures(texts, config)
        for fn in sorted(texts):
            d = json.loads(texts[fn])
            c = d["crate"]
            self.crates[c] = d
            for f in d["fns"]:
                F = Fn(c, f)
                self.fns[F.path] = F
            for a in d["adts"]:
                self.adts[a["path"]] = a
            for i in d["impls"]:
                i["crate"] = c
                self.impls.append(i)
            for t in d["traits"]:
                self.traits[t["path"]] = t
            for a in d["aliases"]:
                self.aliases[a["path"]] = a
        self.reindex()
        if inline:
            from . import inline as _inline
            _inline.apply(self)

    def reindex(self):
        self._children = defaultdict(list)
        for F in self.fns.values():
            if F.is_closure and F.parent:
                self._children[F.parent].append(F)
                for p in F.j.get("extra_parents", []):
                    self._children[p].append(F)
        self._by_stripped = defaultdict(list)
        for p, F in self.fns.items():
            self._by_stripped[strip_generics(p)].append(F)
        self._impl_index = None
        self._callers = None

    # ---- lookups
    def fn(self, path):
        """Exact path, or path modulo turbofish generics. Returns None if missing/ambiguous."""
        F = self.fns.get(path)
        if F:
            return F
        c = self._by_stripped.get(strip_generics(path), [])
        if len(c) == 1:
            return c[0]
        return None

    def find(self, regex, crate=None):
        r = re.compile(regex)
        return [F for p, F in self.fns.items() if r.search(p) and (crate is None or F.crate == crate)]

    def closures_of(self, F, recursive=True):
        out = []
        for c in sorted(self._children.get(F.path, []), key=lambda x: x.path):
            out.append(c)
            if recursive:
                out.extend(self.closures_of(c, True))
        return out

    def with_closures(self, F):
        return [F] + self.closures_of(F)

    def adt(self, path):
        return self.adts.get(path)

    def adt_fields(self, path):
        a = self.adts[path]
        out = {}
        for v in a["variants"]:
            for f in v["fields"]:
                key = f["name"] if a["kind"] != "Enum" else "%s.%s" % (v["name"], f["name"])
                out[key] = f
        return out

    def variant_by_discr(self, adt_path, discr):
        a = self.adts.get(adt_path)
        if not a:
            return None
        for v in a["variants"]:
            if v["discr"] == discr:
                return v["name"]
        return None

    def variants(self, adt_path):
        return [v["name"] for v in self.adts[adt_path]["variants"]]

    # ---- trait dispatch
    def impls_of_trait_item(self, trait_item_path):
        if self._impl_index is None:
            idx = defaultdict(list)
            for F in self.fns.values():
                ti = F.trait_item
                if ti:
                    idx[strip_generics(ti)].append(F)
            self._impl_index = idx
        return self._impl_index.get(strip_generics(trait_item_path), [])

    @staticmethod
    def _local_trait(name):
        return bool(name) and name.startswith("incremental")

    def call_targets(self, t):
        """Local functions a call terminator may enter: resolved callee, or all local impls of a
        trait method when the call is dynamic/unresolved. Closure-typed generic args are added by
        callers that want the "closure created here is called here" approximation."""
        out = []
        r = t.j.get("resolved")
        if r:
            F = self.fn(r)
            if F is not None:
                out.append(F)
                # a resolved trait *declaration* (virtual call) still needs expansion
                if t.j.get("resolved_kind") == "Virtual" and self._local_trait(t.j.get("callee_trait")):
                    out.extend(x for x in self.impls_of_trait_item(r) if x not in out)
                return out
            if (t.j.get("resolved_kind") == "Virtual" or t.j.get("callee_trait")) and \
                    self._local_trait(t.j.get("callee_trait")):
                out.extend(self.impls_of_trait_item(r))
                if out:
                    return out
        c = t.j.get("callee")
        if c:
            F = self.fn(c)
            if F is not None:
                out.append(F)
            if self._local_trait(t.j.get("callee_trait")):
                # dyn / generic call of a trait of the analysed crates: every local impl may run.
                # (unresolved calls of std traits - Iterator, Debug, Clone.. - are not expanded)
                out.extend(x for x in self.impls_of_trait_item(c) if x not in out)
        return out

    def callers_index(self):
        if self._callers is None:
            idx = defaultdict(list)
            for F in self.fns.values():
                for t in F.calls():
                    for tgt in self.call_targets(t):
                        idx[tgt.path].append(t)
            self._callers = idx
        return self._callers

    def callers(self, F):
        return self.callers_index().get(F.path, [])

    def call_sites(self, pred):
        for F in self.fns.values():
            for t in F.calls():
                if pred(t):
                    yield t

    def calls_to(self, regex):
        r = re.compile(regex)
        return list(self.call_sites(lambda t: t.callee is not None and r.search(t.callee)))

    def n_call_sites(self):
        return sum(1 for F in self.fns.values() for _ in F.calls())
