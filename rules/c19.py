"""C19 — limits and misuse panic with a diagnostic; the height limit is exact (structural clauses)."""
from . import q
from .cfg import DefUse
from .effects import writes_of
from .expr import expr, show, is_plus_one, mentions, walk
from .facts import Place, op_place

EXPLANATION = (
    "Decided clause of C19: both height-indexed heaps always have exactly limit+1 buckets (the readers "
    "compute `len - 1`, so every constructor and every resize of `queues` must size it `param + 1`); "
    "Node.height is only set through AdjustHeightsHeap::set_height, where every path to the store passes "
    "the `height > max_height_allowed()` test with a diverging true edge unless `height <= max_height_seen`; "
    "max_height_seen is only raised to a checked height and shrinking below it diverges; the cycle test "
    "dominates the height repair; the same-state assertion dominates the store into bind.rhs; "
    "set_max_height_allowed diverges while Stabilising; stabilise asserts NotStabilising before starting.")
NOT_DECIDED = ("Texts of the panic messages; absence of hangs in general; that the debug-only emptiness "
               "assertion of RecomputeHeap::set_max_height_allowed cannot fail (runtime heap content).")
ASSUMPTIONS = ["Vec::resize(n) / vec![x; n] / a push loop over 0..n produce exactly n buckets"]


def _is_arg(n):
    return lambda e: e == ("arg", n) or (e[0] == "field" and e[1] == ("arg", n))


def _collects_range(F, du):
    """`(0..n).map(f).collect()`: the vector has exactly one element per value of the range (map keeps the
    length; any other adaptor does not count)."""
    from .expr import walk
    for t in q.calls_in(F, "core::iter::traits::iterator::Iterator::collect",
                        "core::iter::traits::collect::FromIterator::from_iter"):
        e = expr(F, t.args[0], du)
        has_range = False
        ok = True
        for x in walk(e):
            if x[0] == "agg" and str(x[1]).endswith("Range"):
                has_range = True
            if x[0] == "call" and not (x[1].endswith("::map") or x[1].endswith("::into_iter")):
                ok = False
        if has_range and ok:
            return True
    return False


def sib_queue_len(ctx, prog):
    R = "C19.SIB-queue-len"
    ctx.rule(R, "max_height_allowed() = queues.len() - 1 in both heaps, so every sizing of `queues` "
                "(constructors and set_max_height_allowed) uses `parameter + 1`")
    n = 0
    # readers
    for path in (q.RCH + "max_height_allowed", q.AHH + "max_height_allowed"):
        F = ctx.need_fn(R, path)
        if F is None:
            continue
        du = DefUse(F)
        rets = [s for s in F.stmts() if s.dst is not None and s.dst.local == 0 and s.dst.is_local()]
        n += 1
        ctx.site(R, F, "return value")
        good = False
        for s in rets:
            e = expr(F, s.dst, du)
            if e[0] == "bin" and e[1] == "Sub" and e[3] == ("const", 1) and mentions(
                    e[2], lambda x: x[0] == "call" and x[1].endswith("::len")):
                good = True
        if good:
            ctx.ok(R, "reader:" + F.short)
        else:
            ctx.fail(R, "reader:" + F.short, "max_height_allowed is no longer `queues.len() - 1`; the sizing "
                     "rule must be re-derived", fn=F)
    # writers
    sizers = [
        (q.RCH + "set_max_height_allowed", "alloc::vec::Vec::resize", 1, 2),
        (q.AHH + "set_max_height_allowed", "alloc::vec::Vec::resize", 1, 2),
        (q.AHH + "new", "alloc::vec::from_elem", 1, 1),
    ]
    for path, callee, argi, param in sizers:
        F = ctx.need_fn(R, path)
        if F is None:
            continue
        du = DefUse(F)
        cs = q.calls_in(F, callee)
        if not cs and callee.endswith("Vec::resize"):
            cs = q.calls_in(F, "alloc::vec::Vec::resize_with")      # same length argument
        if not cs:
            ctx.missing(R, "%s in %s" % (callee, F.short))
        for t in cs:
            n += 1
            e = expr(F, t.args[argi], du)
            ctx.site(R, F, "bb%d %s size=%s" % (t.bb, callee.rsplit("::", 1)[-1], show(e)))
            if is_plus_one(e, _is_arg(param)):
                ctx.ok(R, "size:" + F.short)
            else:
                ctx.fail(R, "size:" + F.short, "queues sized `%s`, must be `<limit parameter> + 1` because "
                         "max_height_allowed() is len-1: a graph of height = limit is rejected"
                         % show(e), fn=F, span=t.span)
    # RecomputeHeap::new: push loop over 0..n+1 (or any from_elem/resize with n+1)
    F = ctx.need_fn(R, q.RCH + "new")
    if F is not None:
        du = DefUse(F)
        found = False
        for s in F.stmts():
            rv = s.rv or {}
            if "agg" in rv and isinstance(rv["agg"], dict) and rv["agg"].get("adt", "").endswith("ops::range::Range"):
                n += 1
                e = expr(F, rv["ops"][1], du)
                e0 = expr(F, rv["ops"][0], du)
                ctx.site(R, F, "bb%d Range(%s, %s)" % (s.bb, show(e0), show(e)))
                found = True
                if is_plus_one(e, _is_arg(1)) and e0 == ("const", 0):
                    # the loop body pushes one bucket per iteration
                    pushes = q.calls_in(F, "alloc::vec::Vec::push")
                    loops = F.cfg().loops()
                    inloop = [t for t in pushes if any(t.bb in body for body in loops.values())]
                    if len(inloop) == 1:
                        ctx.ok(R, "size:RecomputeHeap::new")
                    elif not inloop and _collects_range(F, du):
                        ctx.ok(R, "size:RecomputeHeap::new", "range mapped and collected")
                    else:
                        ctx.fail(R, "size:RecomputeHeap::new", "expected exactly one push per iteration", fn=F)
                else:
                    ctx.fail(R, "size:RecomputeHeap::new", "bucket loop runs over %s..%s, must be 0..limit+1"
                             % (show(e0), show(e)), fn=F, span=s.span)
        for t in q.calls_in(F, "alloc::vec::from_elem", "alloc::vec::Vec::resize"):
            n += 1
            found = True
            e = expr(F, t.args[1], du)
            ctx.site(R, F, "bb%d size=%s" % (t.bb, show(e)))
            if is_plus_one(e, _is_arg(1)):
                ctx.ok(R, "size:RecomputeHeap::new")
            else:
                ctx.fail(R, "size:RecomputeHeap::new", "queues sized `%s`" % show(e), fn=F, span=t.span)
        if not found:
            ctx.missing(R, "bucket construction in RecomputeHeap::new")
    # no other function resizes / replaces the queues vectors
    allowed = {q.RCH + "new", q.AHH + "new", q.RCH + "set_max_height_allowed", q.AHH + "set_max_height_allowed"}
    for F in prog.fns.values():
        if F.crate != "incremental" or F.root in allowed:
            continue
        if F.impl_self_adt not in ("incremental::recompute_heap::RecomputeHeap",
                                   "incremental::adjust_heights_heap::AdjustHeightsHeap"):
            continue
        for t in q.calls_in(F, "alloc::vec::Vec::resize", "alloc::vec::Vec::push", "alloc::vec::Vec::pop",
                            "alloc::vec::Vec::truncate", "alloc::vec::Vec::clear", "alloc::vec::Vec::remove"):
            ty = F.local_ty(t.arg_place(0).local) if t.arg_place(0) else ""
            if "VecDeque" in ty and "Vec<" in ty.replace("VecDeque<", ""):
                ctx.fail(R, "resizer:" + F.short, "the bucket vector is resized outside the constructor/"
                         "set_max_height_allowed", fn=F, span=t.span)
    ctx.floor(R, n, 6)


def dom_limit(ctx, prog):
    R = "C19.DOM-limit"
    ctx.rule(R, "every path to Node::set_height in AdjustHeightsHeap::set_height passes the limit test "
                "(true edge diverges) unless height <= max_height_seen; max_height_seen is only assigned a "
                "checked height; shrinking below max_height_seen diverges; set_max_height_allowed diverges "
                "while Stabilising")
    n = 0
    # heights are only ever stored through AdjustHeightsHeap::set_height (limit test + max_height_seen, which the
    # shrink test of set_max_height_allowed relies on)
    NS = prog.fn("<incremental::node::Node as incremental::node::ErasedNode>::set_height")
    if NS is None:
        ctx.missing(R, "<Node as ErasedNode>::set_height")
    else:
        for t in prog.callers(NS):
            ctx.site(R, t.fn, "bb%d node.set_height" % t.bb)
            if q.strip_generics(t.fn.path) == q.strip_generics(q.AHH + "set_height"):
                ctx.ok(R, "height-writer:" + t.fn.short)
            else:
                ctx.fail(R, "height-writer:" + t.fn.short, "%s stores a node height directly, bypassing "
                         "AdjustHeightsHeap::set_height: max_height_seen is not updated (a later shrink below the "
                         "height in use is accepted) and/or the limit is not tested" % t.fn.short, fn=t.fn, span=t.span)
    F = ctx.need_fn(R, q.AHH + "set_height")
    if F is not None:
        du = DefUse(F)
        c = F.cfg()
        stores = q.calls_in(F, "ErasedNode>::set_height", "ErasedNode::set_height")
        if not stores:
            ctx.missing(R, "Node::set_height call in AdjustHeightsHeap::set_height")
        s_seen = s_lim = None
        for b in F.blocks:
            t = b["term"]
            if t["k"] != "switch":
                continue
            e = expr(F, t["on"], du)
            if e[0] == "bin" and e[1] == "Gt" and e[2] == ("arg", 3):
                if e[3][0] == "field" and e[3][2][-1] == "max_height_seen":
                    s_seen = b["id"]
                if e[3][0] == "call" and e[3][1].endswith("max_height_allowed"):
                    s_lim = b["id"]
        n += 2
        ctx.site(R, F, "switch max_height_seen bb%s" % s_seen)
        ctx.site(R, F, "switch limit bb%s" % s_lim)
        if s_lim is None:
            ctx.fail(R, "limit-test", "no `height > max_height_allowed()` test in set_height", fn=F)
        else:
            # true edge diverges
            true_t = [x for x in c.succ[s_lim] if 0 not in c.edge_values(s_lim, x)]
            div = all(q.diverges_without_return(F, x) for x in true_t) and bool(true_t)
            if not div:
                ctx.fail(R, "limit-test", "the true edge of `height > max_height_allowed()` does not diverge", fn=F)
            avoid_edges = set()
            if s_seen is not None:
                for x in c.succ[s_seen]:
                    if c.edge_values(s_seen, x) == [0]:
                        avoid_edges.add((s_seen, x))
            for t in stores:
                n += 1
                ctx.site(R, F, "bb%d Node::set_height" % t.bb)
                p = c.path([0], [t.bb], avoid={s_lim}, avoid_edges=avoid_edges)
                if p is not None:
                    ctx.fail(R, "limit-path", "a path reaches Node::set_height with height > max_height_seen "
                             "without the limit test", fn=F, path=q.fmt_path(F, p))
                elif div:
                    ctx.ok(R, "limit-path")
        # max_height_seen writers
        ws = writes_of(prog, "incremental::adjust_heights_heap::AdjustHeightsHeap.max_height_seen")
        for a in ws:
            n += 1
            ctx.site(R, a.fn, "bb%d max_height_seen %s" % (a.bb, a.kind))
            if a.fn.path != F.path:
                ctx.fail(R, "seen-writer:" + a.fn.short, "max_height_seen written outside set_height", fn=a.fn,
                         span=a.span)
                continue
            e = expr(F, a.value["use"], du) if a.value and "use" in a.value else ("?",)
            guarded = s_seen is not None and any(
                s == s_seen and [v for x in can for v in c.edge_values(s, x)] != [0]
                for s, can in c.controlling_switches(a.bb))
            if e == ("arg", 3) and guarded:
                ctx.ok(R, "seen-writer")
            else:
                ctx.fail(R, "seen-writer", "max_height_seen must be assigned `height` under "
                         "`height > max_height_seen` (found %s)" % show(e), fn=F, span=a.span)
    G = ctx.need_fn(R, q.AHH + "set_max_height_allowed")
    if G is not None:
        du = DefUse(G)
        c = G.cfg()
        rs = q.calls_in(G, "alloc::vec::Vec::resize")
        sw = None
        for b in G.blocks:
            t = b["term"]
            if t["k"] == "switch":
                e = expr(G, t["on"], du)
                if e[0] == "bin" and e[1] in ("Lt", "Gt") and mentions(e, lambda x: x[0] == "field" and x[2][-1] == "max_height_seen") \
                        and mentions(e, lambda x: x == ("arg", 2)):
                    sw = (b["id"], e)
        n += 1
        ctx.site(R, G, "switch shrink-test %s" % (sw[0] if sw else None))
        if sw is None or not rs:
            ctx.fail(R, "shrink", "no `new < max_height_seen` test before the resize", fn=G)
        else:
            sb, e = sw
            # Lt(arg2, seen) true => diverge ; Gt(seen, arg2) true => diverge
            lt = (e[1] == "Lt" and e[2] == ("arg", 2)) or (e[1] == "Gt" and e[3] == ("arg", 2))
            true_t = [x for x in c.succ[sb] if 0 not in c.edge_values(sb, x)]
            if lt and true_t and all(q.diverges_without_return(G, x) for x in true_t) and \
                    all(c.dominates(sb, r.bb) for r in rs):
                ctx.ok(R, "shrink")
            else:
                ctx.fail(R, "shrink", "shrinking below max_height_seen does not diverge before the resize", fn=G)
    H = ctx.need_fn(R, q.STATE + "set_max_height_allowed")
    if H is not None:
        from . import dtab
        syms = [dtab.Sym("status", dtab.is_field_get("status"), dtab.enum_domain(prog, "incremental::state::IncrStatus"))]
        acts = [dtab.Action("resize_ahh", lambda t: q.callee_is(t, "AdjustHeightsHeap::set_max_height_allowed")),
                dtab.Action("resize_rch", lambda t: q.callee_is(t, "RecomputeHeap::set_max_height_allowed"))]
        tb = dtab.table(H, syms, acts, path_sensitive=True, record_returns=False)
        calls = q.calls_in(H, "AdjustHeightsHeap::set_max_height_allowed", "RecomputeHeap::set_max_height_allowed")
        n += 1 + len(calls)
        bad = []
        for (st,), res in sorted(tb.items()):
            got = dtab.summarize(res)
            ctx.site(R, H, "status=%s -> %s" % (st, got))
            if st == "Stabilising":
                if got != ["diverge"]:
                    bad.append("while Stabilising it does %s (must panic before touching the heaps)" % got)
            else:
                if len(got) != 1 or "resize_ahh" not in got[0] or "resize_rch" not in got[0] or "diverge" in got[0]:
                    bad.append("with status %s it does %s (must resize both heaps)" % (st, got))
        if len(tb) < 3 or len(calls) != 2:
            bad.append("status test or resizer calls not found (%d cells, %d resizer calls)" % (len(tb), len(calls)))
        if bad:
            ctx.fail(R, "stabilising", "State::set_max_height_allowed: " + "; ".join(bad), fn=H)
        else:
            ctx.ok(R, "stabilising")
    ctx.floor(R, n, 8)


def dom_cycle(ctx, prog):
    R = "C19.DOM-cycle"
    ctx.rule(R, "ensure_height_requirement tests rc_thin_ptr_eq(parent, original_child) with a diverging "
                "true edge before add_unless_mem / set_height")
    F = ctx.need_fn(R, q.AHH + "ensure_height_requirement")
    if F is None:
        return
    du = DefUse(F)
    c = F.cfg()
    tests = []
    for b in F.blocks:
        t = b["term"]
        if t["k"] == "switch":
            e = expr(F, t["on"], du)
            neg = False
            if e[0] == "un" and e[1] == "Not":
                e, neg = e[2], True
            if e[0] == "call" and e[1].endswith("rc_thin_ptr_eq"):
                args = {a for a in e[2]}
                if args == {("arg", 5), ("arg", 2)}:
                    tests.append((b["id"], neg))
    acts = q.calls_in(F, "AdjustHeightsHeap::add_unless_mem", "AdjustHeightsHeap::set_height")
    for t in acts:
        ctx.site(R, F, "bb%d %s" % (t.bb, q.short_path(t.callee)) if hasattr(q, "short_path") else "bb%d" % t.bb)
    ctx.site(R, F, "cycle tests %s" % tests)
    if not tests:
        ctx.fail(R, "cycle-test", "no rc_thin_ptr_eq(parent, original_child) test: a cycle through a bind "
                 "would loop forever in adjust_heights", fn=F)
        return
    if len(acts) < 2:
        ctx.missing(R, "add_unless_mem/set_height in ensure_height_requirement")
        return
    sb, neg = tests[0]
    eq_edges = [x for x in c.succ[sb] if (0 not in c.edge_values(sb, x)) != neg]
    if eq_edges and all(q.diverges_without_return(F, x) for x in eq_edges) and all(c.dominates(sb, t.bb) for t in acts):
        ctx.ok(R, "cycle-test")
    else:
        ctx.fail(R, "cycle-test", "the cycle test does not diverge on equality or does not dominate the "
                 "height repair", fn=F)
    ctx.floor(R, len(acts) + len(tests), 3)
    # who may raise a height: the cycle test guards only ensure_height_requirement, so every other way of
    # queueing a node in the adjust-heights heap or of raising a height inside the loop bypasses it
    allowed = {
        "AdjustHeightsHeap::add_unless_mem": {q.AHH + "ensure_height_requirement"},
        "AdjustHeightsHeap::set_height": {q.AHH + "ensure_height_requirement", q.STATE + "set_height"},
    }
    n = 0
    for callee, okset in sorted(allowed.items()):
        T = ctx.need_fn(R, q.AHH + callee.split("::")[1])
        if T is None:
            continue
        for t in prog.callers(T):
            n += 1
            ctx.site(R, t.fn, "bb%d call %s" % (t.bb, callee))
            inst = "raiser:%s:%s" % (callee.split("::")[1], t.fn.short)
            if q.strip_generics(t.fn.path) in {q.strip_generics(x) for x in okset}:
                ctx.ok(R, inst)
            else:
                ctx.fail(R, inst, "%s is called from %s, outside ensure_height_requirement: heights raised there "
                         "are not covered by the cycle test (a cycle through a bind would loop or overflow "
                         "instead of panicking)" % (callee, t.fn.short), fn=t.fn, span=t.span)
    ctx.floor(R, n, 3)


def dom_world(ctx, prog):
    R = "C19.DOM-world"
    ctx.rule(R, "the BindLhsChange arm asserts weak_thin_ptr_eq(rhs.weak_state(), state.weak_self) before "
                "storing the new rhs into bind.rhs")
    F = ctx.need_fn(R, q.NODE_IMPL + "recompute_one")
    if F is None:
        return
    du = DefUse(F)
    c = F.cfg()
    tests = []
    for b in F.blocks:
        t = b["term"]
        if t["k"] == "switch":
            e = expr(F, t["on"], du)
            neg = False
            if e[0] == "un" and e[1] == "Not":
                e, neg = e[2], True
            if e[0] == "call" and e[1].endswith("weak_thin_ptr_eq"):
                if mentions(e, lambda x: x[0] == "call" and x[1].endswith("weak_state")) and \
                        mentions(e, lambda x: x[0] == "field" and x[2][-1] == "weak_self"):
                    tests.append((b["id"], neg))
    # the store: borrow_mut of BindNode.rhs
    stores = [a for a in writes_of(prog, "incremental::kind::bind::BindNode.rhs") if a.fn.path == F.path]
    for a in stores:
        ctx.site(R, F, "bb%d bind.rhs %s" % (a.bb, a.kind))
    ctx.site(R, F, "world tests %s" % tests)
    if not tests:
        ctx.fail(R, "world-test", "no same-state assertion on the node returned by the bind closure", fn=F)
        return
    if not stores:
        ctx.missing(R, "store into BindNode.rhs in recompute_one")
        return
    sb, neg = tests[0]
    ne_edges = [x for x in c.succ[sb] if (c.edge_values(sb, x) == [0]) != neg]
    if ne_edges and all(q.diverges_without_return(F, x) for x in ne_edges) and all(c.dominates(sb, a.bb) for a in stores):
        ctx.ok(R, "world-test")
    else:
        ctx.fail(R, "world-test", "the same-state assertion does not dominate the store into bind.rhs", fn=F)
    # no other writer of BindNode.rhs outside recompute_one / constructor
    for a in writes_of(prog, "incremental::kind::bind::BindNode.rhs"):
        if a.fn.path != F.path:
            ctx.fail(R, "rhs-writer:" + a.fn.short, "BindNode.rhs written outside the BindLhsChange arm", fn=a.fn,
                     span=a.span)
    ctx.floor(R, len(stores) + len(tests), 2)


def dom_assert(ctx, prog, R="C19.DOM-nested"):
    ctx.rule(R, "stabilise compares status with NotStabilising (diverging on mismatch) before stabilise_start")
    Fs = [G for G in prog.with_closures(prog.fn(q.STATE + "stabilise_debug") or ctx.need_fn(R, q.STATE + "stabilise_debug"))
          ] if prog.fn(q.STATE + "stabilise_debug") else []
    if not Fs:
        ctx.missing(R, "State::stabilise_debug")
        return
    found = False
    for G in Fs:
        starts = q.calls_in(G, "State::stabilise_start")
        if not starts:
            continue
        found = True
        du = DefUse(G)
        c = G.cfg()
        tests = []
        for b in G.blocks:
            t = b["term"]
            if t["k"] == "switch":
                e = expr(G, t["on"], du)
                neg = False
                if e[0] == "un" and e[1] == "Not":
                    e, neg = e[2], True
                if e[0] == "call" and (e[1].endswith("::eq") or e[1].endswith("::ne")) and \
                        mentions(e, lambda x: x[0] == "agg" and x[1] == "IncrStatus::NotStabilising") and \
                        mentions(e, lambda x: x[0] == "field" and x[2][-1] == "status"):
                    if e[1].endswith("::ne"):
                        neg = not neg
                    tests.append((b["id"], neg))
        ctx.site(R, G, "status tests %s, stabilise_start bb%d" % (tests, starts[0].bb))
        if not tests:
            ctx.fail(R, "assert", "stabilise no longer asserts status == NotStabilising on entry: a nested or "
                     "post-panic stabilise would run", fn=G)
            continue
        sb, neg = tests[0]
        # mismatch edge: eq == false (value 0) when not negated
        mism = [x for x in c.succ[sb] if (c.edge_values(sb, x) == [0]) != neg]
        if mism and all(q.diverges_without_return(G, x) for x in mism) and c.dominates(sb, starts[0].bb):
            ctx.ok(R, "assert")
        else:
            ctx.fail(R, "assert", "the status assertion does not diverge before stabilise_start", fn=G)
    if not found:
        ctx.missing(R, "call of stabilise_start in stabilise_debug")
    # stabilise_start is called from nowhere else
    SS = prog.fn(q.STATE + "stabilise_start")
    if SS is not None:
        for t in prog.callers(SS):
            ctx.site(R, t.fn, "bb%d call stabilise_start" % t.bb)
            if t.fn.root != q.STATE + "stabilise_debug":
                ctx.fail(R, "caller:" + t.fn.short, "stabilise_start called outside stabilise_debug", fn=t.fn,
                         span=t.span)


def dom_nested(ctx, prog):
    dom_assert(ctx, prog, "C19.DOM-nested")


for _f, _id in ((sib_queue_len, "C19.SIB-queue-len"), (dom_limit, "C19.DOM-limit"), (dom_cycle, "C19.DOM-cycle"),
                (dom_world, "C19.DOM-world"), (dom_nested, "C19.DOM-nested")):
    _f.rule_id = _id

def data_cursor(ctx, prog, R="C19.DATA-cursor"):
    ctx.rule(R, "reconfiguring the limit never moves the recompute heap's scan cursor past pending work: in "
                "RecomputeHeap::set_max_height_allowed the new height_lower_bound is min(old height_lower_bound, ..) - "
                "the heap need not be empty at that point (a var may have been set since the last stabilise)")
    from .effects import writes_of as _w
    F = ctx.need_fn(R, q.RCH + "set_max_height_allowed")
    if F is None:
        return
    du = DefUse(F)
    ws = [a for a in _w(prog, "incremental::recompute_heap::RecomputeHeap.height_lower_bound") if a.fn.path == F.path and a.kind == "set"]
    for a in ws:
        e = expr(F, a.site.args[1], du)
        ctx.site(R, F, "bb%d height_lower_bound := %s" % (a.bb, show(e)[:80]))
        old = lambda x: x[0] == "call" and x[1].endswith("Cell::get") and mentions(
            x, lambda y: y[0] == "field" and str(y[2][-1]).endswith("height_lower_bound"))
        if e[0] == "call" and e[1].endswith("cmp::min") and any(old(x) for x in e[2]):
            ctx.ok(R, "cursor")
        else:
            ctx.fail(R, "cursor", "set_max_height_allowed sets the scan cursor to %s: with a node already queued (a var set "
                     "before the reconfiguration) the cursor can jump past it, the next stabilise pops nothing and a graph "
                     "of legal height is not computed" % show(e)[:80], fn=F, span=a.span)
    if not ws:
        ctx.ok(R, "cursor", "the cursor is not touched")


data_cursor.rule_id = "C19.DATA-cursor"

RULES = [sib_queue_len, dom_limit, dom_cycle, dom_world, dom_nested, data_cursor]

# control signature of the bookkeeping effects this property depends on (rules/ctrlsig.py)
from .ctrlsig import make_rule as _ctrl_rule  # noqa: E402
RULES.append(_ctrl_rule("C19"))
