"""Small query helpers shared by the property rule files."""
import re

from .cfg import DefUse, origins, _is_panic_callee
from .effects import accesses_of, writes_of, resolve_fields, getter_field
from .facts import strip_generics, op_place, op_const, Place, short_path

N = "incremental::node::Node"
NODE_IMPL = "<incremental::node::Node as incremental::node::ErasedNode>::"
NODE = "incremental::node::Node::"
STATE = "incremental::state::State::"
RCH = "incremental::recompute_heap::RecomputeHeap::"
AHH = "incremental::adjust_heights_heap::AdjustHeightsHeap::"
OBS_IMPL = ("<incremental::internal_observer::InternalObserver<T> as "
            "incremental::internal_observer::ErasedObserver>::")
OBS = "incremental::internal_observer::InternalObserver::<T>::"
VAR = "incremental::var::Var::<T>::"
VAR_IMPL = "<incremental::var::Var<T> as incremental::var::ErasedVariable>::"
EXPERT = "incremental::kind::expert::ExpertNode::"


def callee_is(t, *names):
    """True if the call's resolved or declared callee (generics stripped) ends with one of names."""
    for c in (t.j.get("resolved"), t.j.get("callee")):
        if not c:
            continue
        c = strip_generics(c)
        for n in names:
            if c == n or c.endswith("::" + n) or c.endswith(n):
                return True
    return False


def calls_in(F, *names):
    return [t for t in F.calls() if callee_is(t, *names)]


def calls_in_tree(prog, F, *names):
    """Calls in F and in the closures defined inside F."""
    out = []
    for G in prog.with_closures(F):
        out.extend(calls_in(G, *names))
    return out


def is_user_span(site):
    """Not an expansion of tracing / assert / panic macros."""
    return not site.macros


def from_macro(site, *names):
    return any(any(n in m for n in names) for m in site.macros)


def is_debug_assert(site):
    return from_macro(site, "debug_assert", "core::assert", "std::assert", "core::panic", "std::panic",
                      "unreachable")


def is_tracing(site):
    return from_macro(site, "tracing::")


def fmt_path(F, blocks):
    if not blocks:
        return None
    return " -> ".join("bb%d(%s)" % (b, F.blocks[b]["term"].get("span", "?").rsplit("/", 1)[-1]) for b in blocks)


def switch_operand_origins(F, bb, du=None):
    """Origins of the operand of the switch terminating block bb (looking through discriminant)."""
    t = F.blocks[bb]["term"]
    if t["k"] != "switch":
        return []
    p = op_place(t["on"])
    if p is None:
        return []
    return origins(F, p, du or DefUse(F))


def origin_calls(os_, *names):
    """Origins that are (via or root) calls to one of the named callees."""
    out = []
    for o in os_:
        if o.kind in ("call", "via"):
            c = str(o.what)
            for n in names:
                if c == n or c.endswith("::" + n) or c.endswith(n):
                    out.append(o)
    return out


def guarded_by_call(prog, F, bb, callee_names, du=None, want_edge=None):
    """Is block bb control-dependent on a switch whose operand derives from a call to one of
    `callee_names`? Returns list of (switch_block, reaching_targets, origin)."""
    du = du or DefUse(F)
    out = []
    for s, can in F.cfg().controlling_switches(bb):
        os_ = switch_operand_origins(F, s, du)
        hits = origin_calls(os_, *callee_names)
        if hits:
            out.append((s, can, hits[0]))
    return out


def diverges_without_return(F, start_bb):
    """No normal return is reachable from start_bb."""
    c = F.cfg()
    return not (c.reach({start_bb}) & set(c.exits))


def block_of_access(a):
    return a.bb


# calls that return (a handle to) the very node they are applied to
NODE_IDENTITY = (
    "<incremental::node::Node as incremental::node::ErasedNode>::packed",
    "<incremental::node::Node as incremental::node::ErasedNode>::erased",
    "<incremental::node::Node as incremental::node::ErasedNode>::weak",
    "<incremental::node::Node as incremental::node::Incremental<R>>::as_input",
    "incremental::node::ErasedNode::packed", "incremental::node::ErasedNode::erased",
    "incremental::node::ErasedNode::weak", "incremental::node::Incremental::as_input",
    "incremental::node::Node::as_parent_dyn_ref",
    "incremental::kind::expert::ExpertEdge::packed", "incremental::kind::expert::ExpertEdge::erased_input",
    "incremental::node::Node::kind",
)
