"""C03 — nodes built inside a bind never run after its input changed (structural clauses)."""
from . import q, dtab
from .cfg import DefUse, origins
from .effects import writes_of, accesses_of, _last_local
from .expr import expr, show, mentions
from .facts import op_place, op_const
from .usercalls import user_calls

EXPLANATION = (
    "Decided clause of C03: (PDOM-register) every function that allocates an Rc<Node> registers the node with "
    "its creation scope on all paths, and Node values are only built by Node::create_inner; (DATA-scope) the "
    "created_in argument of every node constructor derives from the state's current scope (single audited "
    "exception: var_in_scope, whose public callers pass Scope::Top or the current scope); (DOM-lhs-change) the "
    "bind change detector takes the old node list before running the closure, brackets the closure with the "
    "scope swap, swaps the child before invalidating the old list, and invalidates exactly the list it took; "
    "(DTAB-invalid) should_be_invalidated follows the per-kind table and Node::kind() hides the payload of an "
    "invalid node; (GUARD-bypass, shared with C02) out-of-order recomputation is heap-guarded.")
NOT_DECIDED = "The runtime ordering itself (that no stale closure runs on any history) and the Invalidated delivery."
ASSUMPTIONS = ["C02.GUARD-bypass and C01.PDOM-sched hold (invalidity propagation is scheduled)"]

NEW_CYCLIC = "alloc::rc::Rc::new_cyclic"


def pdom_register(ctx, prog):
    R = "C03.PDOM-register"
    ctx.rule(R, "every Rc<Node> allocation (Rc::new_cyclic with a Node payload) is followed on all paths by "
                "created_in.add_node(rc); Node aggregates are built only in Node::create_inner; Node::create is "
                "used only by create_rc and inside new_cyclic closures")
    allocs = []
    for F in prog.fns.values():
        if F.crate != "incremental":
            continue
        for t in F.calls():
            if q.callee_is(t, NEW_CYCLIC) and t.generics and t.generics[0].endswith("node::Node"):
                allocs.append(t)
    for t in allocs:
        F = t.fn
        ctx.site(R, F, "bb%d Rc::<Node>::new_cyclic" % t.bb)
        c = F.cfg()
        adds = q.calls_in(F, "Scope::add_node")
        good = False
        if adds:
            p = c.path(c.succ[t.bb], c.exits, avoid={a.bb for a in adds})
            if p is None:
                # the receiver is the node's own created_in, the argument derives from the new Rc
                a = adds[0]
                du = DefUse(F)
                recv = origins(F, a.arg_place(0), du)
                arg = origins(F, a.arg_place(1), du)
                from_rc = lambda os_: any(o.site is t for o in os_ if o.site is not None)
                recv_ok = from_rc(recv) and any((_last_local(o.fields) or "").endswith("Node.created_in") for o in recv)
                if recv_ok and from_rc(arg):
                    good = True
        if good:
            ctx.ok(R, "register:" + F.short)
        else:
            ctx.fail(R, "register:" + F.short, "a node is allocated but not added to its creation scope on every "
                     "path: when the enclosing bind re-runs, the node is never invalidated and keeps computing "
                     "with the stale captured value", fn=F, span=t.span)
    ctx.floor(R, len(allocs), 3)
    # who builds Node values
    for F in prog.fns.values():
        if F.crate != "incremental":
            continue
        for s in F.stmts():
            rv = s.rv or {}
            if "agg" in rv and isinstance(rv["agg"], dict) and rv["agg"].get("adt") == "incremental::node::Node":
                ctx.site(R, F, "bb%d builds Node" % s.bb)
                if F.path != q.NODE + "create_inner":
                    ctx.fail(R, "ctor:" + F.short, "a Node value is built outside Node::create_inner", fn=F, span=s.span)
                else:
                    ctx.ok(R, "ctor:create_inner")
    alloc_fns = {t.fn.path for t in allocs}
    for name in ("create", "create_inner"):
        G = None
        for F in prog.fns.values():
            if q.strip_generics(F.path) == q.NODE + name:
                G = F
        if G is None:
            ctx.missing(R, "Node::" + name)
            continue
        for t in prog.callers(G):
            ctx.site(R, t.fn, "bb%d call Node::%s" % (t.bb, name))
            okc = (q.strip_generics(t.fn.root) in (q.NODE + "create_rc", q.NODE + "create")
                   or t.fn.root in alloc_fns)
            if okc:
                ctx.ok(R, "caller:%s<-%s" % (name, t.fn.short))
            else:
                ctx.fail(R, "caller:%s<-%s" % (name, t.fn.short), "Node::%s is called outside create_rc / a "
                         "new_cyclic constructor: the node would never be registered with its scope" % name,
                         fn=t.fn, span=t.span)


CUR_SCOPE = ("State::current_scope",)


def data_scope(ctx, prog):
    R = "C03.DATA-scope"
    ctx.rule(R, "the created_in argument of every Node::create* call derives from the state's current scope "
                "(State::current_scope() or state.current_scope.borrow())")
    n = 0
    for F in prog.fns.values():
        if F.crate != "incremental":
            continue
        du = None
        for t in F.calls():
            c = q.strip_generics(t.callee or "")
            if c not in (q.NODE + "create_rc", q.NODE + "create"):
                continue
            if q.strip_generics(F.path) == q.NODE + "create_rc":
                continue  # forwards its own parameter
            n += 1
            du = du or DefUse(F)
            os_ = [o for o in origins(F, t.arg_place(1), du) if o.kind != "via"]
            ctx.site(R, F, "bb%d %s created_in <- %s" % (t.bb, c.rsplit("::", 1)[-1], os_))
            good = bool(os_)
            why = []
            for o in os_:
                if o.kind == "call" and str(o.what).endswith("State::current_scope"):
                    continue
                if (_last_local(o.fields) or "").endswith("State.current_scope"):
                    continue
                # via a pass-through from state.current_scope.borrow().clone()
                if o.kind == "call" and str(o.what).endswith("State::weak"):
                    continue
                good = False
                why.append(repr(o))
            inst = "scope:%s@%s" % (F.short, c.rsplit("::", 1)[-1])
            if good:
                ctx.ok(R, inst)
            elif q.strip_generics(F.path) == q.STATE + "var_in_scope" and all(
                    o.kind == "arg" and o.what == 3 for o in os_):
                ctx.ok(R, inst, "audited exception: explicit scope parameter")
            else:
                ctx.fail(R, inst, "a node is created with a scope that is not the state's current scope (%s): it "
                         "escapes invalidation when the enclosing bind re-runs" % ", ".join(why), fn=F, span=t.span)
    # the audited exception: callers of var_in_scope
    VS = None
    for F in prog.fns.values():
        if q.strip_generics(F.path) == q.STATE + "var_in_scope":
            VS = F
    if VS is None:
        ctx.missing(R, "State::var_in_scope")
    else:
        for t in prog.callers(VS):
            n += 1
            du = DefUse(t.fn)
            os_ = [o for o in origins(t.fn, t.arg_place(2), du) if o.kind != "via"]
            ctx.site(R, t.fn, "bb%d var_in_scope scope <- %s" % (t.bb, os_))
            good = bool(os_) and all(
                (o.kind == "agg" and str(o.what).endswith("Scope::Top")) or
                (o.kind == "const" and "Scope::Top" in str((o.what or {}).get("text", ""))) or
                (o.kind == "call" and str(o.what).endswith("State::current_scope")) for o in os_)
            name = t.fn.name or t.fn.short
            allowed_top = name in ("var",)
            is_top = any(o.kind in ("agg", "const") for o in os_)
            if good and (not is_top or allowed_top):
                ctx.ok(R, "var_in_scope<-" + t.fn.short)
            else:
                ctx.fail(R, "var_in_scope<-" + t.fn.short, "var_in_scope is given a scope from %s" % os_, fn=t.fn,
                         span=t.span)
    ctx.floor(R, n, 16)


def dom_lhs_change(ctx, prog):
    R = "C03.DOM-lhs-change"
    ctx.rule(R, "BindLhsChange arm: take() of the old node list dominates the closure call; current_scope is set "
                "to rhs_scope before and restored after it; change_child_bind_rhs precedes "
                "invalidate_nodes_created_on_rhs, which receives the list that was taken and is controlled by "
                "old_rhs.is_some() only")
    F = ctx.need_fn(R, q.NODE_IMPL + "recompute_one")
    if F is None:
        return
    du = DefUse(F)
    c = F.cfg()
    uc = [u for u in user_calls(prog) if u.site.fn.path == F.path and u.role == "bind"]
    if len(uc) != 1:
        ctx.missing(R, "bind closure call in recompute_one")
        return
    call = uc[0].site
    ctx.site(R, F, "bb%d bind closure call" % call.bb)
    takes = [a for a in writes_of(prog, "incremental::kind::bind::BindNode.all_nodes_created_on_rhs")
             if a.fn.path == F.path and a.kind == "take"]
    ctx.site(R, F, "take %s" % [a.bb for a in takes])
    if len(takes) != 1 or not c.dominates(takes[0].bb, call.bb) or takes[0].bb == call.bb:
        ctx.fail(R, "take-before-call", "all_nodes_created_on_rhs is not emptied before the bind closure runs: nodes "
                 "created by the new run would be invalidated together with the old ones (or the old ones never)",
                 fn=F, span=call.span)
    else:
        ctx.ok(R, "take-before-call")
    # scope bracket
    sc = [a for a in writes_of(prog, "incremental::state::State.current_scope") if a.fn.path == F.path]
    ctx.site(R, F, "current_scope writes %s" % [(a.bb, a.kind) for a in sc])
    before = [a for a in sc if c.dominates(a.bb, call.bb) and a.bb != call.bb]
    after = [a for a in sc if c.postdominates(a.bb, call.bb) and a.bb != call.bb and a not in before]
    good = False
    if before and after:
        # value written before derives from bind.rhs_scope; value after from State::current_scope() sampled before
        def assigned_value(a):
            # `*x.borrow_mut() = v`: the assignment through the guard follows the borrow_mut call
            for s in F.stmts():
                if s.dst is not None and s.dst.proj and s.bb in c.reach({a.bb}) and s.dst.proj[0] == "deref":
                    os_ = origins(F, q.Place({"local": s.dst.local, "proj": []}), du)
                    if any(o.site is a.site for o in os_ if o.site is not None):
                        return s
            return None
        sb = assigned_value(before[-1])
        sa = assigned_value(after[0])
        if sb is not None and sa is not None:
            eb = expr(F, sb.rv["use"], du) if "use" in sb.rv else ("?",)
            ea = expr(F, sa.rv["use"], du) if "use" in sa.rv else ("?",)
            okb = mentions(eb, lambda x: x[0] == "field" and x[2][-1] == "rhs_scope")
            oka = mentions(ea, lambda x: x[0] == "call" and x[1].endswith("State::current_scope")) and \
                any(x[0] == "call" and x[1].endswith("State::current_scope") and c.dominates(x[3], before[-1].bb)
                    for x in __import__("rules.expr", fromlist=["walk"]).walk(ea))
            good = okb and oka
    if good:
        ctx.ok(R, "scope-bracket")
    else:
        ctx.fail(R, "scope-bracket", "the bind closure is not bracketed by current_scope := rhs_scope ... "
                 "current_scope := saved scope: nodes it creates would be attributed to the wrong scope", fn=F,
                 span=call.span)
    # child swap before invalidation; invalidation gets the taken list; controlled by old_rhs.is_some()
    cc = q.calls_in(F, "ErasedNode>::change_child_bind_rhs", "ErasedNode::change_child_bind_rhs")
    inv = q.calls_in(F, "invalidate_nodes_created_on_rhs")
    ctx.site(R, F, "change_child %s invalidate %s" % ([t.bb for t in cc], [t.bb for t in inv]))
    if not cc or len(inv) != 1:
        ctx.missing(R, "change_child_bind_rhs / invalidate_nodes_created_on_rhs in recompute_one")
        return
    i = inv[0]
    if any(i.bb in c.reach({x.bb}) for x in cc) and not any(x.bb in c.reach({i.bb}) for x in cc) and \
            c.dominates(call.bb, i.bb):
        ctx.ok(R, "swap-before-invalidate")
    else:
        ctx.fail(R, "swap-before-invalidate", "the old right-hand side is invalidated before the child swap (its "
                 "children can no longer be unlinked) or before the closure ran", fn=F, span=i.span)
    os_ = origins(F, i.arg_place(0), du)
    if any(o.site is takes[0].site for o in os_ if o.site is not None) if takes else False:
        ctx.ok(R, "invalidate-arg")
    else:
        ctx.fail(R, "invalidate-arg", "invalidate_nodes_created_on_rhs does not receive the list taken before the "
                 "closure ran", fn=F, span=i.span)
    # ... and nothing else touches the taken list in between (e.g. handing part of it back to the bind)
    if takes:
        other_users = []
        for t in F.calls():
            if F.is_cleanup(t.bb) or t is i or q.is_tracing(t) or t.bb == takes[0].bb:
                continue
            if q.callee_is(t, "core::mem::drop", "drop_in_place", "Deref::deref", "DerefMut::deref_mut", "fmt"):
                continue
            for k in range(len(t.args)):
                pl = t.arg_place(k)
                if pl is None:
                    continue
                if any(o.site is takes[0].site for o in origins(F, pl, du) if o.site is not None):
                    other_users.append(t)
                    break
        ctx.site(R, F, "other users of the taken list: %s" % [q.short_path(t.callee) for t in other_users])
        if other_users:
            ctx.fail(R, "taken-list-untouched", "the list of nodes taken from the previous run is also passed to %s: nodes "
                     "of the previous run can escape invalidation (e.g. be handed back to the bind)"
                     % ", ".join(sorted({q.short_path(t.callee) for t in other_users})), fn=F, span=other_users[0].span)
        else:
            ctx.ok(R, "taken-list-untouched")
    ctrl = c.controlling_switches(i.bb)
    arm_sw = set()
    only_some = False
    extra = []
    for s, can in ctrl:
        e = expr(F, F.blocks[s]["term"]["on"], du)
        if e[0] == "call" and e[1].endswith("Option::is_some"):
            only_some = True
        elif e[0] == "discr" or (e[0] == "call" and e[1].endswith("Node::kind")):
            arm_sw.add(s)   # the match on kind / Option<&Kind>
        elif c.dominates(s, call.bb):
            pass            # conditions that also govern the closure call (tracing, debug bookkeeping)
        else:
            extra.append(show(e)[:50])
    if only_some and not extra:
        ctx.ok(R, "invalidate-guard")
    else:
        ctx.fail(R, "invalidate-guard", "invalidation of the old nodes is controlled by %s (expected only "
                 "old_rhs.is_some())" % (extra or "nothing"), fn=F, span=i.span)
    # invalidate_nodes_created_on_rhs invalidates every live entry
    G = ctx.need_fn(R, "incremental::node::invalidate_nodes_created_on_rhs")
    if G is not None:
        from .loops import elem_loops, uncovered_iteration
        ls = elem_loops(G)
        sinks = {t.bb for t in q.calls_in(G, "ErasedNode>::invalidate_node", "ErasedNode::invalidate_node")}
        ctx.site(R, G, "loops %s invalidate_node %s" % (ls, sorted(sinks)))
        if not ls or not sinks:
            ctx.fail(R, "invalidate-all", "invalidate_nodes_created_on_rhs no longer loops over the list", fn=G,
                     kind="anchor")
        else:
            p = uncovered_iteration(G, ls[0], sinks, {"Weak::upgrade": 0})
            if p is not None:
                ctx.fail(R, "invalidate-all", "a live node of the old right-hand side can be skipped", fn=G,
                         path=q.fmt_path(G, p))
            else:
                ctx.ok(R, "invalidate-all")


SPEC_INVALID = {
    "Constant": "false", "Var": "false", "Expert": "false",
    "ArrayFold": "has_invalid_child", "Map": "has_invalid_child", "MapWithOld": "has_invalid_child",
    "MapRef": "has_invalid_child", "Map2": "has_invalid_child", "Map3": "has_invalid_child",
    "Map4": "has_invalid_child", "Map5": "has_invalid_child", "Map6": "has_invalid_child",
    "BindLhsChange": "!is_valid(bind.lhs)", "BindMain": "!is_valid(lhs_change)",
}


def dtab_invalid(ctx, prog):
    R = "C03.DTAB-invalid"
    ctx.rule(R, "should_be_invalidated: map-like and fold -> has_invalid_child; BindLhsChange -> !lhs.is_valid(); "
                "BindMain -> !lhs_change.is_valid(); Expert/Var/Constant -> false; Node::kind() is None when "
                "!is_valid and is the only reader of _kind")
    F = ctx.need_fn(R, q.NODE_IMPL + "should_be_invalidated")
    if F is not None:
        du = DefUse(F)
        syms = [dtab.Sym("kindopt", lambda e: e[0] == "call" and e[1].endswith("Node::kind"), {1: "Some"}),
                dtab.Sym("kind", lambda e: e[0] == "field" and e[1][0] == "call" and e[1][1].endswith("Node::kind"),
                         dtab.enum_domain(prog, "incremental::kind::Kind"))]

        def d(F_, t, du_):
            e = expr(F_, t.args[0], du_)
            if q.callee_is(t, "has_invalid_child"):
                return "has_invalid_child"
            tail = ".".join(e[2][-2:]) if e[0] == "field" else show(e)
            tail = tail.replace("0.", "") if tail.startswith("0.") else tail
            return "is_valid(%s)" % tail
        acts = [dtab.Action("q", lambda t: q.callee_is(t, "has_invalid_child", "ErasedNode>::is_valid",
                                                       "ErasedNode::is_valid"), d)]
        tb = dtab.table(F, syms, acts, record_returns=True)
        for (_, kv), res in sorted(tb.items()):
            want = SPEC_INVALID.get(kv)
            got = set()
            for r in res:
                qs = [a[1] for a in r if a[0] == "q"]
                rets = [a[1] for a in r if a[0] == "ret"]
                if qs:
                    x = qs[0]
                    if x.startswith("is_valid"):
                        neg = any("Not(" in y for y in rets)
                        x = ("!" if neg else "") + x
                    got.add(x)
                elif rets and rets[-1] == "0":
                    got.add("false")
                else:
                    got.add("?" + ";".join(rets))
            ctx.site(R, F, "%s -> %s" % (kv, sorted(got)))
            norm = {g.replace("bind.lhs", "bind.lhs").replace("0.lhs_change", "lhs_change") for g in got}
            if want is None:
                ctx.fail(R, "kind:" + kv, "new Kind variant %s has no invalidation rule in the specification" % kv,
                         fn=F, kind="anchor")
            elif norm != {want}:
                ctx.fail(R, "kind:" + kv, "should_be_invalidated(%s) = %s, specified %s" % (kv, sorted(norm), want), fn=F)
            else:
                ctx.ok(R, "kind:" + kv)
    K = ctx.need_fn(R, q.NODE + "kind")
    if K is not None:
        syms = [dtab.Sym("valid", lambda e: e[0] == "call" and e[1].endswith("::is_valid"), {0: "invalid", 1: "valid"},
                         "bool")]
        tb = dtab.table(K, syms, [], record_returns=True)
        got = {k[0]: sorted({a[1].split("(")[0] for r in v for a in r if a[0] == "ret"}) for k, v in tb.items()}
        ctx.site(R, K, "kind(): %s" % got)
        if got.get("invalid") == ["Option::None"] and got.get("valid") == ["Option::Some"]:
            ctx.ok(R, "kind()")
        else:
            ctx.fail(R, "kind()", "Node::kind() must return None exactly when the node is invalid (got %s): an "
                     "invalid node's function could run again" % got, fn=K)
    for a in accesses_of(prog, "incremental::node::Node._kind"):
        ctx.site(R, a.fn, "bb%d _kind %s" % (a.bb, a.kind))
    readers = set()
    for F2 in prog.fns.values():
        if F2.crate != "incremental":
            continue
        for s in F2.stmts():
            pls = [s.dst] if s.dst is not None else []
            rv = s.rv or {}
            for k in ("ref", "discr"):
                if k in rv:
                    pls.append(q.Place(rv[k]))
            for k in ("use",):
                if k in rv and op_place(rv[k]) is not None:
                    pls.append(op_place(rv[k]))
            if any(f.endswith("node::Node._kind") for p in pls for f in p.fields()):
                readers.add(F2.path)
    ctx.site(R, "Node._kind", "touched by %s" % sorted(readers))
    bad = sorted(r for r in readers if q.strip_generics(r) not in (q.NODE + "kind",))
    if bad:
        ctx.fail(R, "_kind-readers", "Node._kind is read outside Node::kind(): %s (the !is_valid case is bypassed)"
                 % bad, fn=prog.fns[bad[0]])
    elif readers:
        ctx.ok(R, "_kind-readers")
    else:
        ctx.missing(R, "reads of Node._kind")
    # every engine entry into the payload starts from kind()
    for name in ("recompute_one", "child_changed"):
        G = prog.fn(q.NODE_IMPL + name)
        if G is None:
            ctx.missing(R, name)
            continue
        ks = q.calls_in(G, "Node::kind")
        if ks and G.cfg().dominates(ks[0].bb, max(u.site.bb for u in user_calls(prog) if u.site.fn.path == G.path)):
            ctx.ok(R, "via-kind:" + name)
        else:
            ctx.fail(R, "via-kind:" + name, "%s does not go through kind() before running node functions" % name, fn=G)


SCOPE_TABLE = {
    # function -> set of normalised results (Weak upgrades / RefCell borrows / unwraps are transparent)
    "<incremental::kind::bind::BindNode as incremental::scope::BindScope>::height": {"ret height arg1.lhs_change"},
    "<incremental::kind::bind::BindNode as incremental::scope::BindScope>::is_valid": {"ret 0", "ret is_valid arg1.main"},
    "<incremental::kind::bind::BindNode as incremental::scope::BindScope>::is_necessary": {"ret 0", "ret is_necessary arg1.main"},
    "incremental::scope::Scope::height": {"ret 0", "ret height arg1.0"},
    "incremental::scope::Scope::is_valid": {"ret 1", "ret is_valid arg1.0"},
    "incremental::scope::Scope::is_necessary": {"ret 1", "ret is_necessary arg1.0"},
}


def _norm_scope(s):
    import re
    s = re.sub(r"\)\.0", ")", s)
    s = re.sub(r"\b(unwrap|upgrade|borrow|expect|deref|as_ref|clone)\(", "(", s)
    s = re.sub(r"[()]", " ", s)
    return " ".join(s.split())


def dtab_scope(ctx, prog, R="C03.DTAB-scope"):
    ctx.rule(R, "a bind scope's height is the height of its lhs-change node (not anything computed from the lhs), "
                "its validity/necessity are those of the bind-main node (false when gone); Scope::Top is height 0, "
                "valid, necessary; Scope::Bind forwards to the BindScope")
    n = 0
    for path, want in sorted(SCOPE_TABLE.items()):
        F = ctx.need_fn(R, path)
        if F is None:
            continue
        tb = dtab.table(F, [], [], record_returns=True, path_sensitive=True)
        got = set()
        for res in tb.values():
            got |= {_norm_scope(x) for x in dtab.summarize(res)}
        got.discard("diverge")
        n += 1
        ctx.site(R, F, "results %s" % sorted(got))
        inst = "scope:" + F.short
        if got == want:
            ctx.ok(R, inst)
        else:
            ctx.fail(R, inst, "%s yields %s, specified %s: nodes created in the bind would sit at the wrong height "
                     "relative to the lhs-change node (or outlive its invalidation), so a stale closure can run "
                     "before the change detector" % (F.short, sorted(got), sorted(want)), fn=F)
    ctx.floor(R, n, 6)


def dom_invalid_last(ctx, prog):
    R = "C03.DOM-invalid-last"
    ctx.rule(R, "invalidate_node clears is_valid only after everything that needs the kind payload: Node::kind() "
                "returns None for an invalid node, so remove_children and (for a bind-main node) the invalidation of "
                "the nodes created on its rhs must not be reachable from the store")
    F = ctx.need_fn(R, q.NODE_IMPL + "invalidate_node")
    if F is None:
        return
    c = F.cfg()
    stores = [a for a in writes_of(prog, "incremental::node::Node.is_valid") if a.fn.path == F.path and a.kind == "set"]
    needs = q.calls_in(F, "Node::kind", "ErasedNode>::remove_children", "Node::remove_children", "ErasedNode>::foreach_child",
                       "invalidate_nodes_created_on_rhs")
    inr = q.calls_in(F, "invalidate_nodes_created_on_rhs")
    for t in needs:
        ctx.site(R, F, "bb%d %s" % (t.bb, q.short_path(t.callee)))
    if len(stores) != 1 or not inr:
        ctx.missing(R, "is_valid store / invalidate_nodes_created_on_rhs in invalidate_node")
        return
    st = stores[0]
    after = [t for t in needs if t.bb in c.reach({st.bb}) and t.bb != st.bb]
    if after:
        ctx.fail(R, "order", "%s runs after is_valid was cleared: kind() already hides the payload, so for a nested "
                 "bind the nodes created by the inner closure are never invalidated and keep running with stale "
                 "captured values" % ", ".join(sorted({q.short_path(t.callee) for t in after})), fn=F, span=after[0].span)
    elif c.path([0], c.exits, avoid={st.bb}) is not None and not _only_early_return(F, c, st.bb):
        ctx.fail(R, "order", "invalidate_node can return without clearing is_valid", fn=F)
    else:
        ctx.ok(R, "order")
    ctx.floor(R, len(needs), 3)


def _only_early_return(F, c, store_bb):
    """Paths that avoid the store are exactly the `already invalid` early return (guarded by is_valid())."""
    p = c.path([0], c.exits, avoid={store_bb})
    if p is None:
        return True
    calls = [F.term(b) for b in p if F.term(b).is_call]
    names = {q.short_path(t.callee) for t in calls if not q.is_tracing(t)}
    return all(n.endswith("is_valid") or "Cell" in n or "tracing" in n for n in names)


dom_invalid_last.rule_id = "C03.DOM-invalid-last"


def guard_bypass(ctx, prog):
    from .c02 import guard_bypass as gb
    gb(ctx, prog, "C03.GUARD-bypass")


def can_recompute(ctx, prog):
    from .c02 import dtab_can_recompute
    dtab_can_recompute(ctx, prog, "C03.DTAB-can-recompute")


for _f, _id in ((pdom_register, "C03.PDOM-register"), (data_scope, "C03.DATA-scope"),
                (dom_lhs_change, "C03.DOM-lhs-change"), (dtab_invalid, "C03.DTAB-invalid"),
                (guard_bypass, "C03.GUARD-bypass"), (can_recompute, "C03.DTAB-can-recompute")):
    _f.rule_id = _id

dtab_scope.rule_id = "C03.DTAB-scope"

def data_edge_ends(ctx, prog):
    """The nodes created on a bind's rhs are raised above the bind's lhs-change node (not above some other node):
    otherwise a stale rhs closure is popped before the change detector invalidates it. Same rule as
    C02.DATA-edge-ends and C02.GUARD-every-rhs-node."""
    from .c02 import data_edge_ends as f, guard_every_rhs_node as g
    from .engine import run_relabelled
    run_relabelled(ctx, prog, f, "C02.DATA-edge-ends", "C03.DATA-edge-ends")
    g(ctx, prog, "C03.DATA-edge-ends")


data_edge_ends.rule_id = "C03.DATA-edge-ends"

RULES = [pdom_register, data_scope, dom_lhs_change, dtab_invalid, guard_bypass, can_recompute, dtab_scope, dom_invalid_last, data_edge_ends]

# control signature of the bookkeeping effects this property depends on (rules/ctrlsig.py)
from .ctrlsig import make_rule as _ctrl_rule  # noqa: E402
RULES.append(_ctrl_rule("C03"))
