#!/usr/bin/env python3
"""Run every quick check against a scratch copy of /repo with one patch applied (never touches /repo).
usage: tools/try_patch.py [-j N] [--props C01,C02] <patch>...
Prints, per patch, the rule instances that report it (nothing = all checks silent). Static analysis only:
the scratch copy is compiled to MIR by the fact extractor, nothing from it is executed."""
import argparse
import concurrent.futures
import os
import re
import shutil
import subprocess
import sys
import tempfile

HERE = os.path.dirname(os.path.dirname(os.path.abspath(__file__)))
sys.path.insert(0, HERE)
from rules import extract  # noqa: E402

ALL = ["C%02d" % i for i in range(1, 21)]


import queue
WORKERS = queue.Queue()


def run(patch, _unused, props):
    worker = WORKERS.get()      # one target-dir suffix per concurrently running job
    try:
        return _run(patch, worker, props)
    finally:
        WORKERS.put(worker)


def _run(patch, worker, props):
    tmp = tempfile.mkdtemp(prefix="verif-try-")
    th = None
    try:
        subprocess.check_call(["rsync", "-a", "--exclude", "target", "--exclude", ".git", extract.REPO + "/", tmp + "/"])
        r = subprocess.run(["patch", "-p1", "--forward", "--batch", "-s", "-i", os.path.abspath(patch)], cwd=tmp,
                           stdout=subprocess.PIPE, stderr=subprocess.STDOUT, text=True)
        if r.returncode != 0:
            return patch, "inapplicable", r.stdout[-300:], {}
        env = dict(os.environ, VERIF_REPO=tmp, VERIF_TGT_SUFFIX="-try%d" % worker)
        th, _ = extract.tree_hash(tmp)
        hits = {}
        status = "silent"
        for p in props:
            r = subprocess.run([sys.executable, os.path.join(HERE, "check"), p, "--configs", "dbg,rel", "--no-evidence"],
                               cwd=HERE, env=env, stdout=subprocess.PIPE, stderr=subprocess.STDOUT, text=True)
            if r.returncode == 2:
                return patch, "nobuild", r.stdout[-800:], {}
            if r.returncode != 0:
                status = "reported"
                hits[p] = re.findall(r"rule (\S+)\s+function (.*?)\s+instance (.*?)\s+configs=(\S+)\n\s+(.*)", r.stdout)
        return patch, status, "", hits
    finally:
        shutil.rmtree(tmp, ignore_errors=True)
        if th:
            shutil.rmtree(os.path.join(extract.WORK, "facts", th), ignore_errors=True)


def main():
    ap = argparse.ArgumentParser()
    ap.add_argument("-j", type=int, default=4)
    ap.add_argument("--props")
    ap.add_argument("patches", nargs="+")
    a = ap.parse_args()
    props = a.props.split(",") if a.props else ALL
    rc = 0
    for i in range(a.j):
        WORKERS.put(i)
    with concurrent.futures.ThreadPoolExecutor(max_workers=a.j) as ex:
        futs = [ex.submit(run, p, i % a.j, props) for i, p in enumerate(a.patches)]
        for f in futs:
            patch, status, detail, hits = f.result()
            print("== %s: %s" % (patch, status))
            if detail:
                print(detail)
            for p, hs in sorted(hits.items()):
                for rule, fn, inst, cfgs, msg in hs:
                    print("   %s | %s | %s [%s]\n       %s" % (rule, fn, inst, cfgs, msg[:220]))
            if status != "silent":
                rc = 1
            sys.stdout.flush()
    sys.exit(rc)


if __name__ == "__main__":
    main()
