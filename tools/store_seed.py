#!/usr/bin/env python3
"""Store a sub-agent's seeded change under /verif/seeded/<name>/ after it has been confirmed.
usage: tools/store_seed.py <CNN> [<name>]   (reads /tmp/seed-CNN/SEED/{patch.diff,demo.rs,meta.json,verify.json})
Runs every quick check against the change (applied to /repo, undone afterwards) and records which rules report it."""
import json
import os
import re
import shutil
import subprocess
import sys

HERE = os.path.dirname(os.path.dirname(os.path.abspath(__file__)))
pid = sys.argv[1]
name = sys.argv[2] if len(sys.argv) > 2 else "agent-%s" % pid
src = "/tmp/seed-%s/SEED" % pid
dst = os.path.join(HERE, "seeded", name)
os.makedirs(dst, exist_ok=True)
meta = json.load(open(os.path.join(src, "meta.json")))
ver = json.load(open(os.path.join(src, "verify.json")))
assert ver["demo_with_change_rc"] != 0 and ver["demo_without_change_rc"] == 0 and ver["suite_with_change_rc"] == 0, ver
shutil.copy(os.path.join(src, "patch.diff"), os.path.join(dst, "patch.diff"))
shutil.copy(os.path.join(src, "demo.rs"), os.path.join(dst, "demo.rs"))
_props = ["--props", os.environ["STORE_PROPS"]] if os.environ.get("STORE_PROPS") else []
out = subprocess.run([os.path.join(HERE, "tools", "try_patch.py")] + _props + [os.path.join(dst, "patch.diff")], cwd=HERE,
                     stdout=subprocess.PIPE, stderr=subprocess.STDOUT, text=True).stdout
caught = sorted(set((r, i) for r, _fn, i in re.findall(r"^   (C\d+\.[A-Za-z0-9-]+) \| (.*?) \| (.*?) \[", out, re.M)))
props = sorted({r.split(".")[0] for r, _ in caught})
meta_out = {
    "name": name,
    "breaks_property": meta.get("property", pid),
    "written_by": "independent sub-agent given only the property text and a scratch worktree",
    "summary": meta.get("summary"),
    "needs_to_manifest": meta.get("needs_to_manifest"),
    "demo_path": meta.get("demo_path", "tests/seed_demo.rs"),
    "confirmed": {
        "how": "scratch worktree /tmp/seed-%s (tools/verify_seed.sh): git apply patch.diff; cargo test --offline --test seed_demo (fails); "
               "cargo test --workspace --offline --no-fail-fast without the demo (all pass); git apply -R; demo passes" % pid,
        "demo_fails_with_change": ver["demo_with_change_rc"] != 0,
        "existing_suite_passes_with_change": ver["suite_with_change_rc"] == 0,
        "existing_tests_passed": ver.get("suite_tests_passed"),
        "demo_passes_without_change": ver["demo_without_change_rc"] == 0,
    },
    "checks_that_report_it": [{"rule": r, "instance": i} for r, i in caught],
    "properties_with_violation": props,
    "detected": bool(caught),
}
json.dump(meta_out, open(os.path.join(dst, "meta.json"), "w"), indent=1)
print(name, "detected" if caught else "MISSED", [r for r, _ in caught])
