#!/usr/bin/env python3
"""Regenerate MANIFEST.json from the rule modules present under rules/ (cNN.py) and the
not_applicable table below. Run after adding/removing a property module."""
import importlib
import json
import os
import sys

HERE = os.path.dirname(os.path.dirname(os.path.abspath(__file__)))
sys.path.insert(0, HERE)

NOT_APPLICABLE = {
    # property -> reason (only used when rules/<id>.py does not exist)
}
PENDING = "static rules for this property are designed in DESIGN.md section 5 but not yet armed; not claimed"

props = [json.loads(l)["id"] for l in open(os.path.join(HERE, "properties.jsonl"))]
checks = []
na = []
for p in props:
    if os.path.exists(os.path.join(HERE, "rules", p.lower() + ".py")):
        m = importlib.import_module("rules." + p.lower())
        rules = [getattr(r, "rule_id", r.__name__) for r in m.RULES]
        checks.append({
            "property_id": p,
            "quick_cmd": "./check %s --tier quick" % p,
            "thorough_cmd": "./check %s --tier thorough" % p,
            "evidence_file": "evidence/%s.json" % p,
            "replay_cmd_template": "./check --replay {path}",
            "engine": "incrfacts+rules",
            "level_claimed": {
                "category": "other",
                "text": ("Static analysis (not a proof of the behavioural property): decides the structural "
                         "necessary conditions named in the evidence explanation, on every path of the "
                         "type-checked program in every analysed build configuration. " + m.EXPLANATION),
                "design_ref": "DESIGN.md section 5, " + p,
            },
            "level_note": ("Trusted: rustc nightly MIR construction and trait resolution, the fact extractor "
                           "engine/incrfacts, the frozen specification tables in rules/%s.py. Not decided: %s"
                           % (p.lower(), m.NOT_DECIDED)),
            "technique": getattr(m, "TECHNIQUE", "static analysis: MIR dataflow / dominance / who-may-write rules "
                                 "over rustc_private facts (%s)" % ", ".join(rules)),
        })
    else:
        na.append({"property_id": p, "reason": NOT_APPLICABLE.get(p, PENDING)})

manifest = {
    "version": 1,
    "setup_cmd": "./setup.sh",
    "hooks": {
        "guard": "cormacrelf_incremental_rs_verif",
        "enable": "none needed: the checks are static and read /repo's sources through a rustc driver; no instrumentation is compiled in",
        "baseline_off_cmd": "cd /repo && cargo test --workspace --no-fail-fast --offline",
        "source_commits": [],
        "add_only": True,
    },
    "engines": [
        {"name": "incrfacts+rules", "path": "engine/incrfacts, rules/",
         "serves_properties": [c["property_id"] for c in checks],
         "kind_free_text": "rustc_private driver (nightly) dumping MIR/ADT/impl facts with resolved callees; "
                           "Python rule engine (dominance, post-dominance modulo guards, provenance, effect signs, "
                           "decision tables, who-may-call/write, type graph); compile_fail witnesses"},
    ],
    "checks": checks,
    "not_applicable": na,
    "notes": "All checks are static analysis of /repo's current working tree; see DESIGN.md. Known findings: known_findings.json.",
}
with open(os.path.join(HERE, "MANIFEST.json"), "w") as fh:
    json.dump(manifest, fh, indent=1)
print("claimed:", [c["property_id"] for c in checks])
print("not applicable:", [n["property_id"] for n in na])
