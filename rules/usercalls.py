"""User-call sites: places where the engine invokes code supplied by the user (boxed closures stored
in node payload fields, generic closure parameters, dyn WeakMap)."""
from .cfg import DefUse, origins, trait_method
from .effects import resolve_fields
from .facts import strip_generics

FN_TRAIT_CALLS = (
    "core::ops::function::FnOnce::call_once",
    "core::ops::function::FnMut::call_mut",
    "core::ops::function::Fn::call",
)

# field suffix -> short role
USER_FIELDS = {
    "kind::map::MapNode.mapper": "map",
    "kind::map::Map2Node.mapper": "map",
    "kind::map::Map3Node.mapper": "map",
    "kind::map::Map4Node.mapper": "map",
    "kind::map::Map5Node.mapper": "map",
    "kind::map::Map6Node.mapper": "map",
    "kind::map::MapWithOld.mapper": "map_with_old",
    "kind::map::MapRefNode.mapper": "map_ref",
    "kind::bind::BindNode.mapper": "bind",
    "kind::array_fold::ArrayFold.fold": "fold",
    "cutoff::ErasedCutoff.should_cutoff": "cutoff",
    "kind::expert::ExpertNode.recompute": "expert_recompute",
    "kind::expert::ExpertNode.on_observability_change": "expert_obs_change",
    "kind::expert::Edge.on_change": "edge_on_change",
    "node_update::OnUpdateHandler.handler_fn": "update_handler",
}


class UserCall:
    __slots__ = ("site", "field", "role", "recv_ty")

    def __init__(self, site, field, role, recv_ty):
        self.site, self.field, self.role, self.recv_ty = site, field, role, recv_ty

    def __repr__(self):
        return "%s bb%d calls %s [%s]" % (self.site.fn.short, self.site.bb, self.field, self.role)


def _is_fn_trait_call(t):
    c = t.j.get("callee") or ""
    c = strip_generics(c)
    if c in FN_TRAIT_CALLS:
        return True
    r = t.j.get("resolved") or ""
    return trait_method(r) in FN_TRAIT_CALLS if r else False


def user_calls(prog):
    """All Fn*/call sites in the core crate whose receiver is not a closure defined in this crate."""
    if "_user_calls" in prog.__dict__:
        return prog.__dict__["_user_calls"]
    out = []
    for F in prog.fns.values():
        du = None
        for t in F.calls():
            if not _is_fn_trait_call(t):
                continue
            gens = t.generics
            self_ty = gens[0] if gens else ""
            # calls of closures defined in the analysed crates are internal edges, not user calls
            if "{closure" in self_ty and "dyn " not in self_ty:
                continue
            p = t.arg_place(0)
            du = du or DefUse(F)
            fields = resolve_fields(prog, F, p, du) if p is not None else set()
            role = None
            fld = None
            for f in fields:
                for suf, r in USER_FIELDS.items():
                    if f.endswith(suf):
                        role, fld = r, f
            if fld is None:
                fld = "<%s>" % self_ty
                role = "param" if "dyn " not in self_ty and "Box<" not in self_ty else "dyn"
            out.append(UserCall(t, fld, role, self_ty))
    prog.__dict__["_user_calls"] = out
    return out
