#!/bin/bash
# Build the fact extractor (offline) and warm the per-config dependency builds.
set -e
cd "$(dirname "$0")"
export CARGO_NET_OFFLINE=true
python3 - <<'PY'
import sys
sys.path.insert(0, '.')
from rules import extract
print("driver built in %.1fs" % extract.build_driver())
th, n = extract.tree_hash()
for c in extract.QUICK_CONFIGS:
    print(c, extract.extract(c, thash=th))
# warm the compile-fail witnesses and the positive control (both cached by tree hash)
from rules import witness, controls
r = witness._run(th)
print("witnesses:", {k: v["result"] for k, v in r["tests"].items()})
print("control facts:", controls._facts("catch_unwind"))
PY
