"""Compile-fail witnesses (rule template CFW): rustc itself is the judge. The witness crate is
instantiated under .work/ with a path dependency on the tree being checked and its doctests are compiled
with `cargo +nightly test --doc`; doctests of the `compile_fail,E0xxx` kind pass only if the snippet fails
to compile with that code, their twins only if they compile (and run: they are trivial)."""
import json
import os
import re
import shutil
import subprocess

from . import extract

VERIF = extract.VERIF
SRC = os.path.join(VERIF, "witnesses", "src", "lib.rs")


def _run(thash):
    """Serialised per scratch directory: two checks (C10 and C13) may run at the same time."""
    import fcntl
    os.makedirs(extract.WORK, exist_ok=True)
    lockf = open(os.path.join(extract.WORK, "witness%s.lock" % os.environ.get("VERIF_TGT_SUFFIX", "")), "w")
    fcntl.flock(lockf, fcntl.LOCK_EX)
    try:
        res = None
        for attempt in range(2):
            res = _run_locked(thash)
            if res["tests"]:
                break
        return res
    finally:
        fcntl.flock(lockf, fcntl.LOCK_UN)
        lockf.close()


def _run_locked(thash):
    cache = os.path.join(extract.WORK, "facts", thash, "witness.json")
    if os.path.exists(cache):
        with open(cache) as fh:
            return json.load(fh)
    wd = os.path.join(extract.WORK, "witness-crate" + os.environ.get("VERIF_TGT_SUFFIX", ""))
    if os.path.isdir(wd):
        shutil.rmtree(wd)
    os.makedirs(os.path.join(wd, "src"))
    shutil.copy(SRC, os.path.join(wd, "src", "lib.rs"))
    with open(os.path.join(wd, "Cargo.toml"), "w") as fh:
        fh.write('[package]\nname = "witnesses"\nversion = "0.0.0"\nedition = "2021"\n\n[workspace]\n\n'
                 '[dependencies]\nincremental = { path = "%s" }\n' % extract.REPO)
    lock = os.path.join(extract.REPO, "Cargo.lock")
    if os.path.exists(lock):
        shutil.copy(lock, os.path.join(wd, "Cargo.lock"))
    env = extract._env_base()
    env["CARGO_TARGET_DIR"] = os.path.join(extract.WORK, "tgt", "witness" + os.environ.get("VERIF_TGT_SUFFIX", ""))
    env.pop("RUSTC_WORKSPACE_WRAPPER", None)
    env.pop("RUSTFLAGS", None)
    r = subprocess.run(["cargo", "+nightly", "test", "--doc", "--offline"], cwd=wd, env=env,
                       stdout=subprocess.PIPE, stderr=subprocess.STDOUT, text=True)
    res = {"returncode": r.returncode, "tests": {}, "tail": r.stdout[-1500:]}
    for m in re.finditer(r"^test src/lib\.rs - (\w+) \(line \d+\)( - compile fail)? \.\.\. (\w+)", r.stdout, re.M):
        res["tests"][m.group(1)] = {"compile_fail": bool(m.group(2)), "result": m.group(3)}
    if res["tests"]:        # a run that produced no verdicts (killed, disk full) is not cached
        os.makedirs(os.path.dirname(cache), exist_ok=True)
        tmp = cache + ".tmp%d" % os.getpid()
        with open(tmp, "w") as fh:
            json.dump(res, fh)
        os.replace(tmp, cache)
    shutil.rmtree(wd, ignore_errors=True)
    return res


def run_witnesses(ctx, R, names):
    thash, _ = extract.tree_hash()
    res = _run(thash)
    if not res["tests"]:
        ctx.fail(R, "witness-run", "the witness crate did not run: %s" % res["tail"][-400:], kind="crash")
        return
    for n in names:
        w = res["tests"].get(n)
        tw = res["tests"].get(n + "_twin")
        ctx.site(R, "witnesses::" + n, "compile_fail -> %s, twin -> %s" % (w and w["result"], tw and tw["result"]))
        if w is None or tw is None:
            ctx.missing(R, "witness " + n)
            continue
        if w["compile_fail"] and w["result"] == "ok" and not tw["compile_fail"] and tw["result"] == "ok":
            ctx.ok(R, "witness:" + n)
        elif tw["result"] != "ok":
            ctx.fail(R, "witness:" + n, "the compiling twin of witness %s no longer compiles; the witness proves "
                     "nothing (API changed)" % n, kind="anchor")
        else:
            ctx.fail(R, "witness:" + n, "witness %s compiles (or fails with another error code): the construct it "
                     "forbids is now expressible outside the crate" % n)
