"""Helper inlining: a function that did not exist when the rule tables were frozen (it is not in
rules/known_fns.json) and that is only ever called statically from the analysed crates is a *helper
extracted by a refactoring*. Its body is spliced into every caller (MIR level, fresh locals and blocks),
so that path rules see the same control flow they saw before the extraction, and the helper itself is
dropped from the program once nothing refers to it. On a tree without new functions this is the identity.

    python3 -m rules.inline --snapshot      rewrite rules/known_fns.json from the current tree (all configs)
"""
import copy
import json
import os
import sys

HERE = os.path.dirname(os.path.abspath(__file__))
KNOWN = os.path.join(HERE, "known_fns.json")
MAX_ROUNDS = 4
MAX_BLOCKS = 400          # do not splice very large bodies


def load_known():
    try:
        with open(KNOWN) as fh:
            return set(json.load(fh)["fns"])
    except FileNotFoundError:
        return None


def _renumber(x, L, B, in_term=False):
    """Deep-copying renumbering of locals (+L) in places and storage markers."""
    if isinstance(x, dict):
        if "local" in x and "proj" in x and isinstance(x["local"], int):
            proj = []
            for e in x["proj"]:
                if isinstance(e, dict) and "index" in e and isinstance(e["index"], int):
                    e = dict(e, index=e["index"] + L)
                proj.append(copy.deepcopy(e) if not isinstance(e, dict) else dict(e))
            return {"local": x["local"] + L, "proj": proj}
        out = {}
        for k, v in x.items():
            if k == "local" and isinstance(v, int) and x.get("k") in ("live", "dead"):
                out[k] = v + L
            else:
                out[k] = _renumber(v, L, B)
        return out
    if isinstance(x, list):
        return [_renumber(v, L, B) for v in x]
    return x


def _retarget(term, B):
    t = term
    for k in ("target", "otherwise"):
        if isinstance(t.get(k), int):
            t[k] = t[k] + B
    if isinstance(t.get("unwind"), int):
        t["unwind"] = t["unwind"] + B
    if "targets" in t and isinstance(t["targets"], list):
        t["targets"] = [[v, b + B] for v, b in t["targets"]]
    return t


def _bump_promoted(x, P):
    if isinstance(x, dict):
        out = {}
        for k, v in x.items():
            if k == "promoted" and isinstance(v, int):
                out[k] = v + P
            else:
                out[k] = _bump_promoted(v, P)
        return out
    if isinstance(x, list):
        return [_bump_promoted(v, P) for v in x]
    return x


def splice(Fj, bb, Gj):
    """Replace the call terminating block `bb` of Fj by the body of Gj. Mutates Fj."""
    call = Fj["blocks"][bb]["term"]
    L = max(l["id"] for l in Fj["locals"]) + 1
    B = len(Fj["blocks"])
    P = 0
    proms = Fj.setdefault("promoted", [])
    if Gj.get("promoted"):
        P = (max([p["index"] for p in proms]) + 1) if proms else 0
        for p in Gj["promoted"]:
            q = copy.deepcopy(p)
            q["index"] = p["index"] + P
            proms.append(q)
    for l in Gj["locals"]:
        nl = dict(l)
        nl["id"] = l["id"] + L
        nl["inlined_from"] = Gj["path"]
        Fj["locals"].append(nl)
    span = call.get("span", "?")
    unwind = call.get("unwind")
    for gb in Gj["blocks"]:
        nb = {"id": gb["id"] + B, "cleanup": gb["cleanup"],
              "stmts": _renumber(gb["stmts"], L, B), "term": _retarget(_renumber(gb["term"], L, B), B),
              "inlined_from": Gj["path"]}
        if P:
            nb = _bump_promoted(nb, P)
            nb["id"] = gb["id"] + B
        t = nb["term"]
        if t["k"] == "return":
            if "dst" in call:
                nb["stmts"].append({"k": "assign", "dst": copy.deepcopy(call["dst"]),
                                    "rv": {"use": {"move": {"local": L, "proj": []}}}, "span": t.get("span", span)})
            if isinstance(call.get("target"), int):
                nb["term"] = {"k": "goto", "target": call["target"], "span": t.get("span", span)}
            else:
                nb["term"] = {"k": "unreachable", "span": t.get("span", span)}
        elif t["k"] == "resume" and isinstance(unwind, int):
            nb["term"] = {"k": "goto", "target": unwind, "span": t.get("span", span)}
        elif t.get("unwind") == "continue" and isinstance(unwind, int):
            t["unwind"] = unwind
        Fj["blocks"].append(nb)
    blk = Fj["blocks"][bb]
    for i, a in enumerate(call.get("args", [])):
        blk["stmts"].append({"k": "live", "local": L + 1 + i})
        blk["stmts"].append({"k": "assign", "dst": {"local": L + 1 + i, "proj": []}, "rv": {"use": copy.deepcopy(a)},
                             "span": span})
    blk["term"] = {"k": "goto", "target": B, "span": span, "inlined_call": Gj["path"]}


def _fn_refs(j, path, acc):
    """Count non-call references (function pointers / fn items passed as values) to `path`."""
    if isinstance(j, dict):
        c = j.get("const")
        if isinstance(c, dict) and c.get("fn") == path:
            acc[0] += 1
        for k, v in j.items():
            if k == "func":
                continue
            _fn_refs(v, path, acc)
    elif isinstance(j, list):
        for v in j:
            _fn_refs(v, path, acc)


# ---------------------------------------------------------------------------------------------------
# Closure numbering: `f::{closure#2}` is rustc's position of the closure inside f. Adding or removing an
# unrelated closure in f (x.unwrap_or_else(|| ..), a for loop turned into an iterator chain, ..) renumbers
# the ones after it. The frozen tables name closures by that number, so before the rules run the closures
# of every function whose closure *count* changed are aligned with the snapshot (longest common subsequence
# over a body signature) and renamed back to the numbers the tables were frozen against.

def closure_sig(f):
    calls = []
    for b in f["blocks"]:
        t = b["term"]
        if t["k"] == "call":
            c = t.get("resolved") or t.get("callee") or "?"
            if "::{closure#" in c:
                c = "closure"
            calls.append(_strip(c))
    return json.dumps([f.get("arg_count"), sorted(calls), [c.get("name") for c in f.get("captures") or []]])


def _strip(path):
    from .facts import strip_generics
    return strip_generics(path)


def closure_table(docs):
    """parent path -> ordered list of (closure path, signature)."""
    tab = {}
    for d in docs.values():
        for f in d["fns"]:
            if f["def_kind"] == "Closure" and f.get("parent"):
                tab.setdefault(f["parent"], []).append((f["path"], closure_sig(f)))
    for k in tab:
        tab[k].sort(key=lambda x: int(x[0].rsplit("{closure#", 1)[1].rstrip("}")))
    return tab


def _lcs(a, b):
    n, m = len(a), len(b)
    L = [[0] * (m + 1) for _ in range(n + 1)]
    for i in range(n - 1, -1, -1):
        for j in range(m - 1, -1, -1):
            L[i][j] = L[i + 1][j + 1] + 1 if a[i] == b[j] else max(L[i + 1][j], L[i][j + 1])
    i = j = 0
    out = []
    while i < n and j < m:
        if a[i] == b[j]:
            out.append((i, j))
            i += 1
            j += 1
        elif L[i + 1][j] >= L[i][j + 1]:
            i += 1
        else:
            j += 1
    return out


def align_closures(texts, config, snapshot=None, log=None):
    """texts: crate file name -> JSON text. Returns (texts, renames)."""
    if snapshot is None:
        try:
            with open(KNOWN) as fh:
                snapshot = json.load(fh).get("closures", {}).get(config)
        except FileNotFoundError:
            snapshot = None
    if not snapshot:
        return texts, {}
    all_renames = {}
    for depth in range(4):
        docs = {k: json.loads(v) for k, v in texts.items()}
        cur = closure_table(docs)
        renames = {}
        for parent, lst in cur.items():
            if parent.count("::{closure#") != depth:
                continue
            snap = snapshot.get(parent)
            if snap is None or len(snap) == len(lst):
                continue
            pairs = _lcs([s for _, s in lst], [s for _, s in snap])
            matched = {i for i, _ in pairs}
            for i, j in pairs:
                if lst[i][0] != snap[j][0]:
                    renames[lst[i][0]] = snap[j][0]
            taken = {p for p, _ in snap}
            for i, (pth, _) in enumerate(lst):
                if i not in matched and pth in taken:
                    renames[pth] = "%s::{closure#%d}" % (parent, 1000 + i)     # a closure the tables do not know
        if not renames:
            continue
        all_renames.update(renames)
        items = sorted(renames.items(), key=lambda kv: -len(kv[0]))
        new_texts = {}
        for k, v in texts.items():
            for n, (old, _new) in enumerate(items):
                v = v.replace(old, "\x00%d\x00" % n)
            for n, (_old, new) in enumerate(items):
                v = v.replace("\x00%d\x00" % n, new)
            new_texts[k] = v
        texts = new_texts
    if all_renames and log:
        print("closures renumbered to the frozen numbering: %s" % ", ".join(
            "%s -> %s" % (a.rsplit("::", 2)[-2] + "::" + a.rsplit("::", 1)[-1], b.rsplit("::", 1)[-1])
            for a, b in sorted(all_renames.items())), file=log)
    return texts, all_renames


def apply(prog, known=None, log=None):
    """Inline helpers unknown to the frozen tables. Returns the list of inlined helper paths."""
    from .facts import Fn, strip_generics
    if known is None:
        known = load_known()
    if known is None:
        return []
    local = set(prog.crates)

    def is_new_helper(G):
        return (not G.is_closure and G.j["def_kind"] in ("Fn", "AssocFn") and G.crate in local
                and G.path not in known and strip_generics(G.path) not in known and not G.trait_item
                and not G.j.get("from_expansion") and len(G.blocks) <= MAX_BLOCKS)

    inlined = []
    for _ in range(MAX_ROUNDS):
        helpers = {G.path: G for G in prog.fns.values() if is_new_helper(G)}
        if not helpers:
            break
        # leaves first: a helper that calls no other helper
        def calls_helper(G):
            return any(t.is_call and (t.j.get("resolved") in helpers or t.j.get("callee") in helpers) and
                       (t.j.get("resolved") or t.j.get("callee")) != G.path for t in G.terms())
        leaves = {p: G for p, G in helpers.items() if not calls_helper(G)}
        if not leaves:
            break
        progress = False
        for F in list(prog.fns.values()):
            if F.path in leaves:
                continue
            changed = False
            bb = 0
            while bb < len(F.j["blocks"]):
                t = F.j["blocks"][bb]["term"]
                if t["k"] == "call":
                    tgt = t.get("resolved") or t.get("callee")
                    G = leaves.get(tgt)
                    if G is not None and t.get("resolved_kind") != "Virtual" and len(F.j["blocks"]) < 4000:
                        splice(F.j, bb, G.j)
                        F.j.setdefault("inlined", []).append(G.path)
                        changed = True
                bb += 1
            if changed:
                crate = F.crate
                j = F.j
                F.__init__(crate, j)
                progress = True
        # drop helpers nothing refers to any more
        for p, G in leaves.items():
            refs = [0]
            for F in prog.fns.values():
                if F.path == p:
                    continue
                for t in F.terms():
                    if t.is_call and (t.j.get("resolved") == p or t.j.get("callee") == p):
                        refs[0] += 1
                _fn_refs(F.j["blocks"], p, refs)
            users = [F for F in prog.fns.values() if p in F.j.get("inlined", [])]
            if refs[0] == 0 and users and G.vis != "pub":
                del prog.fns[p]
                inlined.append(p)
                # closures defined in the helper now belong to the functions it was inlined into
                for C in prog.fns.values():
                    if C.is_closure and C.root == p and users:
                        C.root = users[0].root
                        if C.parent == p:
                            C.j["extra_parents"] = [u.path for u in users]
        if not progress:
            break
    if inlined:
        prog.reindex()
        if log:
            print("inlined helper(s) not in the frozen symbol table: %s" % ", ".join(inlined), file=log)
    prog.inlined_helpers = inlined
    return inlined


def snapshot():
    sys.path.insert(0, os.path.dirname(HERE))
    from . import extract
    from .facts import Program
    names = set()
    closures = {}
    thash, _ = extract.tree_hash()
    for cfg in extract.THOROUGH_CONFIGS:
        d = extract.extract(cfg, thash=thash)
        prog = Program(d, cfg, inline=False)
        for F in prog.fns.values():
            if not F.is_closure:
                names.add(F.path)
        closures[cfg] = {k: [[p, sg] for p, sg in v] for k, v in closure_table(prog.crates).items()}
    with open(KNOWN, "w") as fh:
        json.dump({"comment": "def paths of every non-closure function of the analysed crates on the tree the rule "
                              "tables were frozen against (all configurations); used only to recognise helpers "
                              "introduced later, which are inlined into their callers before the rules run",
                   "fns": sorted(names), "closures": closures}, fh, indent=0)
    print("known_fns.json: %d functions" % len(names))


if __name__ == "__main__":
    if "--snapshot" in sys.argv:
        snapshot()
