"""Post-dominance modulo guard predicates (rule template PDOM) and boolean-source tracking."""
from .cfg import DefUse, trait_method
from .facts import Place, op_place, op_const, strip_generics


def bool_source(F, operand, du=None, depth=0):
    """Trace a switch operand back to the call that produced it.
    Returns (term, negated, via_discriminant) or None. Follows copies, `Not`, `discriminant(x)`,
    and comparisons with the constants 0 (`x == 0` flips, `x != 0` keeps)."""
    du = du or DefUse(F)
    p = op_place(operand) if isinstance(operand, dict) else operand
    neg = False
    disc = False
    steps = 0
    while p is not None and steps < 12:
        steps += 1
        if p.proj:
            # e.g. (_5.0) of a tuple: give up on precision, fall back to base
            return None
        d = du.single_def(p.local)
        if d is None:
            ds = du.defs.get(p.local, [])
            # several defs (e.g. `a && b` lowered to a bool temp): not a simple source
            return None
        kind, site = d
        if kind == "call":
            return (site, neg, disc)
        rv = site.rv or {}
        if "use" in rv:
            p = op_place(rv["use"])
        elif "un" in rv and rv["un"][0] == "Not":
            neg = not neg
            p = op_place(rv["un"][1])
        elif "discr" in rv:
            disc = True
            p = Place(rv["discr"])
        elif "cast" in rv:
            p = op_place(rv["cast"])
        elif "ref" in rv:
            p = Place(rv["ref"])
            if p.proj and p.proj != ["deref"]:
                return None
            p = Place({"local": p.local, "proj": []})
        else:
            return None
    return None


def callee_matches(t, names):
    for c in (t.j.get("resolved"), t.j.get("callee")):
        if not c:
            continue
        c1 = strip_generics(c)
        c2 = trait_method(c)
        for n in names:
            if c1 == n or c1.endswith("::" + n) or c2.endswith("::" + n) or c1.endswith(n):
                return n
    return None


def excused_edges(F, excuse, du=None):
    """excuse: {callee suffix: value} — the value of the predicate on which *not* reaching a sink is
    fine (e.g. {'is_necessary': 0, 'is_in_recompute_heap': 1}). For enum-returning calls the value
    is the discriminant. Returns the set of CFG edges (switch_bb, target) taken exactly on that value."""
    du = du or DefUse(F)
    c = F.cfg()
    out = set()
    for b in F.blocks:
        t = b["term"]
        if t["k"] != "switch":
            continue
        src = bool_source(F, t["on"], du)
        if src is None:
            continue
        call, neg, disc = src
        n = callee_matches(call, excuse.keys())
        if n is None:
            continue
        want = excuse[n]
        wants = want if isinstance(want, (set, frozenset, list, tuple)) else [want]
        for tgt in c.succ[b["id"]]:
            labels = c.edge_values(b["id"], tgt)
            # explicit values on this edge
            explicit = [v for v in labels if v != "otherwise"]
            all_explicit = [v for v, _ in t["targets"]]
            for w in wants:
                w_eff = w
                if neg and not disc:
                    w_eff = 0 if w else 1
                if w_eff in explicit:
                    out.add((b["id"], tgt))
                elif "otherwise" in labels and w_eff not in all_explicit:
                    # boolean: otherwise = "non-zero"; enum: otherwise = any variant not listed
                    out.add((b["id"], tgt))
    return out


def unexcused_path(F, start_bb, sink_blocks, excuse=None, du=None, from_successors=True,
                   extra_avoid_edges=()):
    """A normal path from start_bb to `return` that passes no sink block and takes no excused
    edge; None if every path is covered."""
    c = F.cfg()
    ex = excused_edges(F, excuse or {}, du) | set(extra_avoid_edges)
    if from_successors:
        starts = [s for s in c.succ[start_bb] if (start_bb, s) not in ex]
    else:
        starts = [start_bb]
    return c.path(starts, c.exits, avoid=set(sink_blocks), avoid_edges=ex)
