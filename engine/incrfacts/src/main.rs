// incrfacts: a rustc_private driver that dumps the type-checked program (MIR with resolved
// callees and field names, ADT type trees, trait impls) of the local crate as one JSON file.
// It contains NO rule logic: all verdicts are computed by /verif/rules/*.py from these facts.
//
// Usage (via cargo): RUSTC_WORKSPACE_WRAPPER=<this binary> INCRFACTS_OUT=<dir> INCRFACTS_CONFIG=<name>
//   cargo +nightly check ...     (cargo passes the real rustc path as argv[1]; it is dropped)
#![feature(rustc_private)]

extern crate rustc_abi;
extern crate rustc_driver;
extern crate rustc_hir;
extern crate rustc_interface;
extern crate rustc_middle;
extern crate rustc_session;
extern crate rustc_span;

use rustc_driver::Compilation;
use rustc_hir::def::DefKind;
use rustc_hir::def_id::{DefId, LocalDefId, LOCAL_CRATE};
use rustc_middle::mir::{
    AggregateKind, BasicBlockData, Body, BorrowKind, Const, Operand, Place, PlaceElem, PlaceTy,
    Rvalue, StatementKind, TerminatorKind, UnwindAction,
};
use rustc_middle::ty::{self, Instance, Ty, TyCtxt, TyKind, TypingEnv};
use rustc_span::Span;
use std::fmt::Write as _;

mod json;
use json::J;

struct Cb;

impl rustc_driver::Callbacks for Cb {
    fn after_analysis<'tcx>(
        &mut self,
        _compiler: &rustc_interface::interface::Compiler,
        tcx: TyCtxt<'tcx>,
    ) -> Compilation {
        let out_dir = match std::env::var("INCRFACTS_OUT") {
            Ok(d) => d,
            Err(_) => return Compilation::Continue,
        };
        let crate_name = tcx.crate_name(LOCAL_CRATE).to_string();
        let wanted = std::env::var("INCRFACTS_CRATES")
            .unwrap_or_else(|_| "incremental,incremental_map,incremental_macros".to_string());
        if !wanted.split(',').any(|c| c == crate_name) {
            return Compilation::Continue;
        }
        // skip test harness builds / build scripts
        let doc = dump_crate(tcx, &crate_name);
        let mut s = String::new();
        doc.write(&mut s);
        let path = format!("{}/{}.json", out_dir, crate_name);
        let tmp = format!("{}.{}.tmp", path, std::process::id());
        std::fs::write(&tmp, s).expect("write facts");
        std::fs::rename(&tmp, &path).expect("rename facts");
        Compilation::Continue
    }
}

fn main() {
    let mut args: Vec<String> = std::env::args().collect();
    // RUSTC_WORKSPACE_WRAPPER: argv[1] is the path of the real rustc
    if args.len() > 1 && (args[1].ends_with("rustc") || args[1].contains("/rustc")) {
        args.remove(1);
    }
    rustc_driver::run_compiler(&args, &mut Cb);
}

fn span_str(tcx: TyCtxt<'_>, span: Span) -> String {
    let sm = tcx.sess.source_map();
    let lo = sm.lookup_char_pos(span.lo());
    let name = match &lo.file.name {
        rustc_span::FileName::Real(r) => match r.local_path() {
            Some(p) => p.display().to_string(),
            None => format!("{:?}", lo.file.name),
        },
        other => format!("{:?}", other),
    };
    format!("{}:{}:{}", name, lo.line, lo.col.0 + 1)
}

fn macro_chain(tcx: TyCtxt<'_>, span: Span) -> J {
    let mut v = Vec::new();
    for ed in span.macro_backtrace() {
        let name = match ed.macro_def_id {
            Some(d) => tcx.def_path_str(d),
            None => format!("{:?}", ed.kind),
        };
        v.push(J::s(name));
        if v.len() >= 6 {
            break;
        }
    }
    J::Arr(v)
}

/// span of the outermost (user-written) call site of this span
fn user_span(span: Span) -> Span {
    let mut s = span;
    let mut n = 0;
    while s.from_expansion() && n < 32 {
        s = s.ctxt().outer_expn_data().call_site;
        n += 1;
    }
    s
}

macro_rules! full_paths {
    ($e:expr) => {
        rustc_middle::ty::print::with_resolve_crate_name!(
            rustc_middle::ty::print::with_no_visible_paths!(
                rustc_middle::ty::print::with_no_trimmed_paths!($e)
            )
        )
    };
}

fn ty_str<'tcx>(ty: Ty<'tcx>) -> String {
    full_paths!(format!("{}", ty))
}

fn dpath(tcx: TyCtxt<'_>, d: DefId) -> String {
    full_paths!(tcx.def_path_str(d))
}

fn ty_tree<'tcx>(tcx: TyCtxt<'tcx>, ty: Ty<'tcx>, depth: usize) -> J {
    if depth > 12 {
        return J::obj(vec![("k", J::s("deep")), ("s", J::s(ty_str(ty)))]);
    }
    match ty.kind() {
        TyKind::Adt(def, args) => {
            let mut a = Vec::new();
            for ga in args.iter() {
                if let Some(t) = ga.as_type() {
                    a.push(ty_tree(tcx, t, depth + 1));
                }
            }
            J::obj(vec![
                ("k", J::s("adt")),
                ("path", J::s(dpath(tcx, def.did()))),
                ("local", J::Bool(def.did().is_local())),
                ("args", J::Arr(a)),
            ])
        }
        TyKind::Ref(_, t, m) => J::obj(vec![
            ("k", J::s("ref")),
            ("mut", J::Bool(m.is_mut())),
            ("args", J::Arr(vec![ty_tree(tcx, *t, depth + 1)])),
        ]),
        TyKind::RawPtr(t, m) => J::obj(vec![
            ("k", J::s("ptr")),
            ("mut", J::Bool(m.is_mut())),
            ("args", J::Arr(vec![ty_tree(tcx, *t, depth + 1)])),
        ]),
        TyKind::Slice(t) => {
            J::obj(vec![("k", J::s("slice")), ("args", J::Arr(vec![ty_tree(tcx, *t, depth + 1)]))])
        }
        TyKind::Array(t, _) => {
            J::obj(vec![("k", J::s("array")), ("args", J::Arr(vec![ty_tree(tcx, *t, depth + 1)]))])
        }
        TyKind::Tuple(ts) => J::obj(vec![
            ("k", J::s("tuple")),
            ("args", J::Arr(ts.iter().map(|t| ty_tree(tcx, t, depth + 1)).collect())),
        ]),
        TyKind::Dynamic(preds, _) => {
            let mut traits = Vec::new();
            let mut a = Vec::new();
            for p in preds.iter() {
                match p.skip_binder() {
                    ty::ExistentialPredicate::Trait(tr) => {
                        traits.push(J::s(dpath(tcx, tr.def_id)));
                        for ga in tr.args.iter() {
                            if let Some(t) = ga.as_type() {
                                a.push(ty_tree(tcx, t, depth + 1));
                            }
                        }
                    }
                    ty::ExistentialPredicate::AutoTrait(d) => traits.push(J::s(dpath(tcx, d))),
                    ty::ExistentialPredicate::Projection(pr) => {
                        if let Some(t) = pr.term.as_type() {
                            a.push(ty_tree(tcx, t, depth + 1));
                        }
                    }
                }
            }
            J::obj(vec![("k", J::s("dyn")), ("traits", J::Arr(traits)), ("args", J::Arr(a))])
        }
        TyKind::Param(p) => J::obj(vec![("k", J::s("param")), ("name", J::s(p.name.to_string()))]),
        TyKind::Closure(d, _) => {
            J::obj(vec![("k", J::s("closure")), ("path", J::s(dpath(tcx, *d)))])
        }
        TyKind::FnDef(d, _) => J::obj(vec![("k", J::s("fndef")), ("path", J::s(dpath(tcx, *d)))]),
        TyKind::FnPtr(..) => J::obj(vec![("k", J::s("fnptr")), ("s", J::s(ty_str(ty)))]),
        TyKind::Bool
        | TyKind::Char
        | TyKind::Int(_)
        | TyKind::Uint(_)
        | TyKind::Float(_)
        | TyKind::Str
        | TyKind::Never => J::obj(vec![("k", J::s("prim")), ("s", J::s(ty_str(ty)))]),
        _ => J::obj(vec![("k", J::s("other")), ("s", J::s(ty_str(ty)))]),
    }
}

struct BodyCx<'a, 'tcx> {
    tcx: TyCtxt<'tcx>,
    body: &'a Body<'tcx>,
    def: LocalDefId,
    tenv: TypingEnv<'tcx>,
}

impl<'a, 'tcx> BodyCx<'a, 'tcx> {
    fn place(&self, p: &Place<'tcx>) -> J {
        let tcx = self.tcx;
        let mut pty = PlaceTy::from_ty(self.body.local_decls[p.local].ty);
        let mut proj = Vec::new();
        for elem in p.projection.iter() {
            let j = match elem {
                PlaceElem::Deref => J::s("deref"),
                PlaceElem::Field(f, _fty) => {
                    let name = match pty.ty.kind() {
                        TyKind::Adt(def, _) => {
                            let vi = pty.variant_index.unwrap_or(rustc_abi::FIRST_VARIANT);
                            let v = def.variant(vi);
                            let fname = v.fields[f].name.to_string();
                            if def.is_enum() {
                                format!("{}::{}.{}", dpath(tcx, def.did()), v.name, fname)
                            } else {
                                format!("{}.{}", dpath(tcx, def.did()), fname)
                            }
                        }
                        TyKind::Closure(d, _) => {
                            let ld = d.expect_local();
                            let caps = tcx.closure_captures(ld);
                            let nm = caps
                                .get(f.as_usize())
                                .map(|c| c.to_string(tcx))
                                .unwrap_or_else(|| "?".to_string());
                            format!("upvar#{}:{}", f.as_usize(), nm)
                        }
                        TyKind::Tuple(_) => format!("tuple.{}", f.as_usize()),
                        _ => format!("?.{}", f.as_usize()),
                    };
                    J::obj(vec![("field", J::s(name)), ("idx", J::Int(f.as_usize() as i128))])
                }
                PlaceElem::Downcast(name, vi) => {
                    let n = match name {
                        Some(s) => s.to_string(),
                        None => format!("{}", vi.as_usize()),
                    };
                    J::obj(vec![("downcast", J::s(n))])
                }
                PlaceElem::Index(l) => J::obj(vec![("index", J::Int(l.as_usize() as i128))]),
                PlaceElem::ConstantIndex { offset, from_end, .. } => J::obj(vec![
                    ("const_index", J::Int(offset as i128)),
                    ("from_end", J::Bool(from_end)),
                ]),
                PlaceElem::Subslice { .. } => J::s("subslice"),
                PlaceElem::OpaqueCast(_) => J::s("opaque_cast"),
                PlaceElem::UnwrapUnsafeBinder(_) => J::s("unwrap_binder"),
            };
            proj.push(j);
            pty = pty.projection_ty(tcx, elem);
        }
        J::obj(vec![("local", J::Int(p.local.as_usize() as i128)), ("proj", J::Arr(proj))])
    }

    fn constant(&self, c: &Const<'tcx>) -> J {
        let tcx = self.tcx;
        let ty = c.ty();
        let mut fields: Vec<(&str, J)> = vec![("ty", J::s(ty_str(ty)))];
        match ty.kind() {
            TyKind::FnDef(d, args) => {
                fields.push(("fn", J::s(dpath(tcx, *d))));
                fields.push(("generics", J::s(format!("{:?}", args))));
            }
            TyKind::Closure(d, _) => {
                fields.push(("closure", J::s(dpath(tcx, *d))));
            }
            _ => {
                let is_scalar = matches!(
                    ty.kind(),
                    TyKind::Bool | TyKind::Char | TyKind::Int(_) | TyKind::Uint(_)
                );
                let is_enum = matches!(ty.kind(), TyKind::Adt(d, _) if d.is_enum());
                if is_scalar || is_enum {
                    if let Some(si) = c.try_eval_scalar_int(tcx, self.tenv) {
                        let bits = si.to_bits_unchecked();
                        let val: i128 = match ty.kind() {
                            TyKind::Int(_) => {
                                let size = si.size();
                                size.sign_extend(bits) as i128
                            }
                            _ => bits as i128,
                        };
                        fields.push(("int", J::Int(val)));
                    }
                }
                if let TyKind::Adt(d, _) = ty.kind() {
                    fields.push(("adt", J::s(dpath(tcx, d.did()))));
                }
                if let Const::Unevaluated(uv, _) = c {
                    if let Some(p) = uv.promoted {
                        fields.push(("promoted", J::Int(p.as_usize() as i128)));
                    }
                }
                let txt = full_paths!(format!("{}", c));
                let mut t = txt;
                if t.len() > 160 {
                    t.truncate(160);
                }
                fields.push(("text", J::s(t)));
            }
        }
        J::obj(vec![("const", J::obj(fields))])
    }

    fn operand(&self, o: &Operand<'tcx>) -> J {
        match o {
            Operand::Copy(p) => J::obj(vec![("copy", self.place(p))]),
            Operand::Move(p) => J::obj(vec![("move", self.place(p))]),
            Operand::Constant(c) => self.constant(&c.const_),
            #[allow(unreachable_patterns)]
            _ => J::obj(vec![("other", J::s(format!("{:?}", o)))]),
        }
    }

    fn rvalue(&self, rv: &Rvalue<'tcx>) -> J {
        let tcx = self.tcx;
        match rv {
            Rvalue::Use(o, ..) => J::obj(vec![("use", self.operand(o))]),
            Rvalue::Ref(_, bk, p) => J::obj(vec![
                ("ref", self.place(p)),
                ("mut", J::Bool(matches!(bk, BorrowKind::Mut { .. }))),
            ]),
            Rvalue::RawPtr(k, p) => {
                J::obj(vec![("rawptr", self.place(p)), ("kind", J::s(format!("{:?}", k)))])
            }
            Rvalue::CopyForDeref(p) => {
                J::obj(vec![("use", J::obj(vec![("copy", self.place(p))])), ("for_deref", J::Bool(true))])
            }
            Rvalue::Cast(kind, o, ty) => J::obj(vec![
                ("cast", self.operand(o)),
                ("kind", J::s(format!("{:?}", kind))),
                ("to", J::s(ty_str(*ty))),
            ]),
            Rvalue::BinaryOp(op, ab) => J::obj(vec![(
                "bin",
                J::Arr(vec![J::s(format!("{:?}", op)), self.operand(&ab.0), self.operand(&ab.1)]),
            )]),
            Rvalue::UnaryOp(op, a) => {
                J::obj(vec![("un", J::Arr(vec![J::s(format!("{:?}", op)), self.operand(a)]))])
            }
            Rvalue::Discriminant(p) => J::obj(vec![("discr", self.place(p))]),
            Rvalue::Aggregate(kind, ops) => {
                let k = match &**kind {
                    AggregateKind::Adt(did, vi, _, _, _) => {
                        let def = tcx.adt_def(*did);
                        let discr: i128 = if def.is_enum() {
                            def.discriminant_for_variant(tcx, *vi).val as i128
                        } else {
                            0
                        };
                        J::obj(vec![
                            ("adt", J::s(dpath(tcx, *did))),
                            ("variant", J::s(def.variant(*vi).name.to_string())),
                            ("discr", J::Int(discr)),
                            ("is_enum", J::Bool(def.is_enum())),
                            (
                                "fields",
                                J::Arr(
                                    def.variant(*vi)
                                        .fields
                                        .iter()
                                        .map(|f| J::s(f.name.to_string()))
                                        .collect(),
                                ),
                            ),
                        ])
                    }
                    AggregateKind::Tuple => J::s("tuple"),
                    AggregateKind::Closure(did, _) => {
                        J::obj(vec![("closure", J::s(dpath(tcx, *did)))])
                    }
                    AggregateKind::Array(_) => J::s("array"),
                    other => J::s(format!("{:?}", other)),
                };
                J::obj(vec![
                    ("agg", k),
                    ("ops", J::Arr(ops.iter().map(|o| self.operand(o)).collect())),
                ])
            }
            Rvalue::Repeat(o, _) => J::obj(vec![("repeat", self.operand(o))]),
            Rvalue::ThreadLocalRef(d) => J::obj(vec![("tls", J::s(dpath(tcx, *d)))]),
            other => {
                let mut s = format!("{:?}", other);
                s.truncate(200);
                J::obj(vec![("other", J::s(s))])
            }
        }
    }

    fn unwind(&self, u: &UnwindAction) -> J {
        match u {
            UnwindAction::Cleanup(bb) => J::Int(bb.as_usize() as i128),
            UnwindAction::Continue => J::s("continue"),
            UnwindAction::Unreachable => J::s("unreachable"),
            UnwindAction::Terminate(_) => J::s("terminate"),
        }
    }

    fn block(&self, id: usize, bb: &BasicBlockData<'tcx>) -> J {
        let tcx = self.tcx;
        let mut stmts = Vec::new();
        for st in bb.statements.iter() {
            let sp = st.source_info.span;
            match &st.kind {
                StatementKind::Assign(b) => {
                    let (p, rv) = &**b;
                    let mut f = vec![
                        ("k", J::s("assign")),
                        ("dst", self.place(p)),
                        ("rv", self.rvalue(rv)),
                        ("span", J::s(span_str(tcx, user_span(sp)))),
                    ];
                    if sp.from_expansion() {
                        f.push(("macros", macro_chain(tcx, sp)));
                    }
                    stmts.push(J::obj(f));
                }
                StatementKind::SetDiscriminant { place, variant_index } => {
                    stmts.push(J::obj(vec![
                        ("k", J::s("setdiscr")),
                        ("dst", self.place(place)),
                        ("variant", J::Int(variant_index.as_usize() as i128)),
                        ("span", J::s(span_str(tcx, user_span(sp)))),
                    ]));
                }
                StatementKind::StorageDead(l) => {
                    stmts.push(J::obj(vec![
                        ("k", J::s("dead")),
                        ("local", J::Int(l.as_usize() as i128)),
                    ]));
                }
                StatementKind::StorageLive(l) => {
                    stmts.push(J::obj(vec![
                        ("k", J::s("live")),
                        ("local", J::Int(l.as_usize() as i128)),
                    ]));
                }
                StatementKind::Intrinsic(i) => {
                    let mut s = format!("{:?}", i);
                    s.truncate(200);
                    stmts.push(J::obj(vec![("k", J::s("intrinsic")), ("text", J::s(s))]));
                }
                _ => {}
            }
        }
        let term = bb.terminator();
        let sp = term.source_info.span;
        let mut tf: Vec<(&str, J)> = Vec::new();
        match &term.kind {
            TerminatorKind::Goto { target } => {
                tf.push(("k", J::s("goto")));
                tf.push(("target", J::Int(target.as_usize() as i128)));
            }
            TerminatorKind::SwitchInt { discr, targets } => {
                tf.push(("k", J::s("switch")));
                tf.push(("on", self.operand(discr)));
                let mut tv = Vec::new();
                for (v, b) in targets.iter() {
                    tv.push(J::Arr(vec![J::Int(v as i128), J::Int(b.as_usize() as i128)]));
                }
                tf.push(("targets", J::Arr(tv)));
                tf.push(("otherwise", J::Int(targets.otherwise().as_usize() as i128)));
            }
            TerminatorKind::UnwindResume => tf.push(("k", J::s("resume"))),
            TerminatorKind::UnwindTerminate(_) => tf.push(("k", J::s("terminate"))),
            TerminatorKind::Return => tf.push(("k", J::s("return"))),
            TerminatorKind::Unreachable => tf.push(("k", J::s("unreachable"))),
            TerminatorKind::Drop { place, target, unwind, .. } => {
                tf.push(("k", J::s("drop")));
                tf.push(("place", self.place(place)));
                tf.push(("target", J::Int(target.as_usize() as i128)));
                tf.push(("unwind", self.unwind(unwind)));
            }
            TerminatorKind::Call { func, args, destination, target, unwind, fn_span, .. } => {
                tf.push(("k", J::s("call")));
                tf.push(("func", self.operand(func)));
                // callee identity
                let fty = func.ty(&self.body.local_decls, tcx);
                if let TyKind::FnDef(did, gargs) = fty.kind() {
                    tf.push(("callee", J::s(dpath(tcx, *did))));
                    tf.push(("callee_crate", J::s(tcx.crate_name(did.krate).to_string())));
                    let mut ga = Vec::new();
                    for a in gargs.iter() {
                        if let Some(t) = a.as_type() {
                            ga.push(J::s(ty_str(t)));
                        }
                    }
                    tf.push(("generics", J::Arr(ga)));
                    // trait of the callee, if it is a trait item
                    if let Some(tr) = tcx.trait_of_assoc(*did) {
                        tf.push(("callee_trait", J::s(dpath(tcx, tr))));
                    }
                    match Instance::try_resolve(tcx, self.tenv, *did, gargs) {
                        Ok(Some(inst)) => {
                            let rd = inst.def_id();
                            tf.push(("resolved", J::s(dpath(tcx, rd))));
                            tf.push(("resolved_kind", J::s(instance_kind(&inst))));
                            tf.push(("resolved_local", J::Bool(rd.is_local())));
                        }
                        _ => {}
                    }
                } else {
                    tf.push(("callee_ty", J::s(ty_str(fty))));
                }
                tf.push(("args", J::Arr(args.iter().map(|a| self.operand(&a.node)).collect())));
                tf.push(("dst", self.place(destination)));
                match target {
                    Some(t) => tf.push(("target", J::Int(t.as_usize() as i128))),
                    None => tf.push(("target", J::Null)),
                }
                tf.push(("unwind", self.unwind(unwind)));
                tf.push(("fn_span", J::s(span_str(tcx, user_span(*fn_span)))));
            }
            TerminatorKind::TailCall { func, args, .. } => {
                tf.push(("k", J::s("tailcall")));
                tf.push(("func", self.operand(func)));
                tf.push(("args", J::Arr(args.iter().map(|a| self.operand(&a.node)).collect())));
            }
            TerminatorKind::Assert { cond, expected, msg, target, unwind } => {
                tf.push(("k", J::s("assert")));
                tf.push(("cond", self.operand(cond)));
                tf.push(("expected", J::Bool(*expected)));
                let mut m = format!("{:?}", msg);
                m.truncate(60);
                tf.push(("msg", J::s(m)));
                tf.push(("target", J::Int(target.as_usize() as i128)));
                tf.push(("unwind", self.unwind(unwind)));
            }
            TerminatorKind::FalseEdge { real_target, .. } => {
                tf.push(("k", J::s("goto")));
                tf.push(("target", J::Int(real_target.as_usize() as i128)));
            }
            TerminatorKind::FalseUnwind { real_target, .. } => {
                tf.push(("k", J::s("goto")));
                tf.push(("target", J::Int(real_target.as_usize() as i128)));
            }
            other => {
                tf.push(("k", J::s("other")));
                let mut s = format!("{:?}", other);
                s.truncate(100);
                tf.push(("text", J::s(s)));
            }
        }
        tf.push(("span", J::s(span_str(tcx, user_span(sp)))));
        if sp.from_expansion() {
            tf.push(("macros", macro_chain(tcx, sp)));
        }
        J::obj(vec![
            ("id", J::Int(id as i128)),
            ("cleanup", J::Bool(bb.is_cleanup)),
            ("stmts", J::Arr(stmts)),
            ("term", J::obj(tf)),
        ])
    }
}

fn instance_kind(inst: &Instance<'_>) -> String {
    let mut s = format!("{:?}", inst.def);
    if let Some(i) = s.find('(') {
        s.truncate(i);
    }
    s
}

fn vis_str(tcx: TyCtxt<'_>, d: DefId) -> String {
    match tcx.visibility(d) {
        ty::Visibility::Public => "pub".to_string(),
        ty::Visibility::Restricted(m) => {
            if m == rustc_hir::def_id::CRATE_DEF_ID.to_def_id() {
                "pub(crate)".to_string()
            } else {
                format!("restricted({})", dpath(tcx, m))
            }
        }
    }
}

fn dump_fn<'tcx>(tcx: TyCtxt<'tcx>, ldid: LocalDefId) -> Option<J> {
    let did = ldid.to_def_id();
    let kind = tcx.def_kind(did);
    let is_fn_like = matches!(kind, DefKind::Fn | DefKind::AssocFn | DefKind::Closure);
    if !is_fn_like {
        return None;
    }
    if !tcx.is_mir_available(did) {
        return None;
    }
    // constructors of tuple structs etc. are DefKind::Ctor and skipped above
    let body: &Body<'tcx> = tcx.optimized_mir(did);
    let tenv = TypingEnv::post_analysis(tcx, did);
    let cx = BodyCx { tcx, body, def: ldid, tenv };
    let _ = cx.def;
    let mut f: Vec<(&str, J)> = Vec::new();
    f.push(("path", J::s(dpath(tcx, did))));
    f.push(("def_kind", J::s(format!("{:?}", kind))));
    let span = tcx.def_span(did);
    f.push(("span", J::s(span_str(tcx, user_span(span)))));
    f.push(("from_expansion", J::Bool(span.from_expansion())));
    if span.from_expansion() {
        f.push(("macros", macro_chain(tcx, span)));
    }
    if matches!(kind, DefKind::Closure) {
        let parent = tcx.typeck_root_def_id(did);
        f.push(("root", J::s(dpath(tcx, parent))));
        f.push(("parent", J::s(dpath(tcx, tcx.parent(did)))));
        // closure kind
        let cty = tcx.type_of(did).instantiate_identity().skip_norm_wip();
        if let TyKind::Closure(_, cargs) = cty.kind() {
            f.push(("closure_kind", J::s(format!("{:?}", cargs.as_closure().kind()))));
        }
        let caps = tcx.closure_captures(ldid);
        f.push((
            "captures",
            J::Arr(
                caps.iter()
                    .map(|c| {
                        J::obj(vec![
                            ("name", J::s(c.to_string(tcx))),
                            ("by_ref", J::Bool(c.is_by_ref())),
                            ("ty", J::s(ty_str(c.place.ty()))),
                        ])
                    })
                    .collect(),
            ),
        ));
    } else {
        f.push(("vis", J::s(vis_str(tcx, did))));
        if let Some(ai) = tcx.opt_associated_item(did) {
            // inherent or trait impl?
            let container = tcx.parent(did);
            match tcx.def_kind(container) {
                DefKind::Impl { of_trait } => {
                    let self_ty = tcx.type_of(container).instantiate_identity().skip_norm_wip();
                    f.push(("impl_self", J::s(ty_str(self_ty))));
                    if let TyKind::Adt(ad, _) = self_ty.kind() {
                        f.push(("impl_self_adt", J::s(dpath(tcx, ad.did()))));
                    }
                    if of_trait {
                        let tr = tcx.impl_trait_ref(container).instantiate_identity().skip_norm_wip();
                        f.push(("impl_trait", J::s(dpath(tcx, tr.def_id))));
                        if let Some(ti) = ai.trait_item_def_id() {
                            f.push(("trait_item", J::s(dpath(tcx, ti))));
                        }
                    }
                }
                DefKind::Trait => {
                    f.push(("in_trait", J::s(dpath(tcx, container))));
                }
                _ => {}
            }
            f.push(("name", J::s(ai.name().to_string())));
        } else {
            f.push(("name", J::s(tcx.item_name(did).to_string())));
        }
    }
    f.push(("arg_count", J::Int(body.arg_count as i128)));
    // locals
    let mut names: Vec<Option<String>> = vec![None; body.local_decls.len()];
    for vdi in body.var_debug_info.iter() {
        if let rustc_middle::mir::VarDebugInfoContents::Place(p) = &vdi.value {
            if p.projection.is_empty() {
                names[p.local.as_usize()] = Some(vdi.name.to_string());
            } else if names[p.local.as_usize()].is_none() && p.projection.len() <= 2 {
                // closure upvar debug names: (*_1).k or _1.k; recorded separately
            }
        }
    }
    let mut upvar_names = Vec::new();
    for vdi in body.var_debug_info.iter() {
        if let rustc_middle::mir::VarDebugInfoContents::Place(p) = &vdi.value {
            if !p.projection.is_empty() {
                upvar_names.push(J::obj(vec![
                    ("name", J::s(vdi.name.to_string())),
                    ("place", cx.place(p)),
                ]));
            }
        }
    }
    let mut locals = Vec::new();
    for (l, decl) in body.local_decls.iter_enumerated() {
        let mut lf = vec![
            ("id", J::Int(l.as_usize() as i128)),
            ("ty", J::s(ty_str(decl.ty))),
            ("tree", ty_tree(tcx, decl.ty, 8)),
        ];
        if let Some(n) = &names[l.as_usize()] {
            lf.push(("name", J::s(n.clone())));
        }
        locals.push(J::obj(lf));
    }
    f.push(("locals", J::Arr(locals)));
    f.push(("debug_places", J::Arr(upvar_names)));
    let mut blocks = Vec::new();
    for (bb, data) in body.basic_blocks.iter_enumerated() {
        blocks.push(cx.block(bb.as_usize(), data));
    }
    f.push(("blocks", J::Arr(blocks)));
    // promoted constants (e.g. `&IncrStatus::Stabilising` in a comparison) are separate bodies
    let mut proms = Vec::new();
    for (pi, pbody) in tcx.promoted_mir(did).iter_enumerated() {
        let pcx = BodyCx { tcx, body: pbody, def: ldid, tenv };
        let mut pblocks = Vec::new();
        for (bb, data) in pbody.basic_blocks.iter_enumerated() {
            pblocks.push(pcx.block(bb.as_usize(), data));
        }
        let mut plocals = Vec::new();
        for (l, decl) in pbody.local_decls.iter_enumerated() {
            plocals.push(J::obj(vec![
                ("id", J::Int(l.as_usize() as i128)),
                ("ty", J::s(ty_str(decl.ty))),
            ]));
        }
        proms.push(J::obj(vec![
            ("index", J::Int(pi.as_usize() as i128)),
            ("locals", J::Arr(plocals)),
            ("blocks", J::Arr(pblocks)),
        ]));
    }
    f.push(("promoted", J::Arr(proms)));
    Some(J::obj(f))
}

fn dump_crate<'tcx>(tcx: TyCtxt<'tcx>, crate_name: &str) -> J {
    let mut fns = Vec::new();
    let mut adts = Vec::new();
    let mut impls = Vec::new();
    let mut traits = Vec::new();
    let mut aliases = Vec::new();

    for ldid in tcx.hir_body_owners() {
        if let Some(j) = dump_fn(tcx, ldid) {
            fns.push(j);
        }
    }

    let items = tcx.hir_crate_items(());
    for ldid in items.definitions() {
        let did = ldid.to_def_id();
        match tcx.def_kind(did) {
            DefKind::Struct | DefKind::Enum | DefKind::Union => {
                let def = tcx.adt_def(did);
                let mut variants = Vec::new();
                for (vi, v) in def.variants().iter_enumerated() {
                    let mut fields = Vec::new();
                    for fd in v.fields.iter() {
                        let fty = tcx.type_of(fd.did).instantiate_identity().skip_norm_wip();
                        fields.push(J::obj(vec![
                            ("name", J::s(fd.name.to_string())),
                            ("vis", J::s(match fd.vis {
                                ty::Visibility::Public => "pub".to_string(),
                                ty::Visibility::Restricted(m) => {
                                    if m == rustc_hir::def_id::CRATE_DEF_ID.to_def_id() {
                                        "pub(crate)".to_string()
                                    } else {
                                        format!("restricted({})", dpath(tcx, m))
                                    }
                                }
                            })),
                            ("ty", J::s(ty_str(fty))),
                            ("tree", ty_tree(tcx, fty, 0)),
                        ]));
                    }
                    let discr = if def.is_enum() {
                        def.discriminant_for_variant(tcx, vi).val as i128
                    } else {
                        0
                    };
                    variants.push(J::obj(vec![
                        ("name", J::s(v.name.to_string())),
                        ("index", J::Int(vi.as_usize() as i128)),
                        ("discr", J::Int(discr)),
                        ("fields", J::Arr(fields)),
                    ]));
                }
                adts.push(J::obj(vec![
                    ("path", J::s(dpath(tcx, did))),
                    ("kind", J::s(format!("{:?}", tcx.def_kind(did)))),
                    ("vis", J::s(vis_str(tcx, did))),
                    ("span", J::s(span_str(tcx, tcx.def_span(did)))),
                    ("variants", J::Arr(variants)),
                ]));
            }
            DefKind::Impl { of_trait } => {
                let self_ty = tcx.type_of(did).instantiate_identity().skip_norm_wip();
                let mut f = vec![
                    ("self", J::s(ty_str(self_ty))),
                    ("self_tree", ty_tree(tcx, self_ty, 0)),
                    ("span", J::s(span_str(tcx, user_span(tcx.def_span(did))))),
                ];
                if of_trait {
                    let tr = tcx.impl_trait_ref(did).instantiate_identity().skip_norm_wip();
                    f.push(("trait", J::s(dpath(tcx, tr.def_id))));
                    f.push(("trait_ref", J::s(full_paths!(format!("{}", tr)))));
                    f.push(("negative", J::Bool(matches!(
                        tcx.impl_polarity(did),
                        ty::ImplPolarity::Negative
                    ))));
                }
                let mut items_j = Vec::new();
                for ai in tcx.associated_items(did).in_definition_order() {
                    if matches!(ai.kind, ty::AssocKind::Fn { .. }) {
                        let mut jf = vec![("path", J::s(dpath(tcx, ai.def_id)))];
                        if let Some(ti) = ai.trait_item_def_id() {
                            jf.push(("trait_item", J::s(dpath(tcx, ti))));
                        }
                        items_j.push(J::obj(jf));
                    }
                }
                f.push(("fns", J::Arr(items_j)));
                impls.push(J::obj(f));
            }
            DefKind::Trait => {
                let mut items_j = Vec::new();
                for ai in tcx.associated_items(did).in_definition_order() {
                    if matches!(ai.kind, ty::AssocKind::Fn { .. }) {
                        items_j.push(J::obj(vec![
                            ("path", J::s(dpath(tcx, ai.def_id))),
                            ("has_default", J::Bool(ai.defaultness(tcx).has_value())),
                        ]));
                    }
                }
                traits.push(J::obj(vec![
                    ("path", J::s(dpath(tcx, did))),
                    ("vis", J::s(vis_str(tcx, did))),
                    ("auto", J::Bool(tcx.trait_is_auto(did))),
                    ("fns", J::Arr(items_j)),
                ]));
            }
            DefKind::TyAlias => {
                let t = tcx.type_of(did).instantiate_identity().skip_norm_wip();
                aliases.push(J::obj(vec![
                    ("path", J::s(dpath(tcx, did))),
                    ("vis", J::s(vis_str(tcx, did))),
                    ("ty", J::s(ty_str(t))),
                    ("tree", ty_tree(tcx, t, 0)),
                ]));
            }
            _ => {}
        }
    }

    let mut cfgs = String::new();
    let _ = write!(cfgs, "debug_assertions={}", tcx.sess.opts.debug_assertions);
    J::obj(vec![
        ("crate", J::s(crate_name)),
        ("config", J::s(std::env::var("INCRFACTS_CONFIG").unwrap_or_default())),
        ("rustc", J::s(rustc_version())),
        ("cfg", J::s(cfgs)),
        ("n_bodies", J::Int(fns.len() as i128)),
        ("fns", J::Arr(fns)),
        ("adts", J::Arr(adts)),
        ("impls", J::Arr(impls)),
        ("traits", J::Arr(traits)),
        ("aliases", J::Arr(aliases)),
    ])
}

fn rustc_version() -> String {
    option_env!("CFG_VERSION").unwrap_or("nightly").to_string()
}
