"""Decision-table extraction (rule template DTAB): conditional constant propagation over finite
discriminant domains. For every full assignment of the tracked symbols the CFG is walked with switches
on tracked operands resolved and every other branch followed both ways; the designated actions met on
the way are recorded. No arithmetic reasoning, no solver, nothing is executed."""
import itertools

from .cfg import DefUse
from .expr import expr, show
from .facts import op_place, Place


class Sym:
    def __init__(self, name, match, domain, kind="discr"):
        """match(expr) -> bool: does this (already discr-stripped) expression denote the symbol?
        domain: dict value -> label. kind: 'discr' (switch on discriminant(x)) or 'bool'."""
        self.name, self.match, self.domain, self.kind = name, match, domain, kind


class Action:
    def __init__(self, name, match, describe=None):
        """match(term) -> bool on call terminators; describe(F, term, du) -> str."""
        self.name, self.match, self.describe = name, match, describe


def _switch_symbol(F, bb, syms, du, cache):
    if bb in cache:
        return cache[bb]
    t = F.blocks[bb]["term"]
    e = expr(F, t["on"], du)
    neg = False
    res = None
    while e[0] == "un" and e[1] == "Not":
        e = e[2]
        neg = not neg
    if e[0] == "discr":
        for s in syms:
            if s.kind == "discr" and s.match(e[1]):
                res = (s, False)
                break
    if res is None:
        for s in syms:
            if s.kind == "bool" and s.match(e):
                res = (s, neg)
                break
    if res is None and e[0] == "call" and (e[1].endswith("::eq") or e[1].endswith("::ne")) and len(e[2]) == 2:
        # `sym == Enum::Variant` written with PartialEq instead of a match
        a, b = e[2]
        for x, y in ((a, b), (b, a)):
            if y[0] == "agg" and len(y) > 3 and y[3] is not None:
                for s in syms:
                    if s.kind == "discr" and s.match(x):
                        res = (s, neg != e[1].endswith("::ne"), ("eq", y[3]))
                        break
            if res is not None:
                break
    cache[bb] = res
    return res


class _PathDefs:
    """DefUse view restricted to the last definition of each local along one explored path."""

    def __init__(self, F, base, last):
        self.fn = F
        self._base = base
        self._last = last
        self.defs = _PathDefsMap(base, last)
        self.pdefs = base.pdefs

    def single_def(self, local):
        d = self.defs.get(local, [])
        return d[0] if len(d) == 1 else None


class _PathDefsMap:
    def __init__(self, base, last):
        self.base, self.last = base, last

    def get(self, local, default=None):
        if local in self.last:
            return [self.last[local]]
        return self.base.defs.get(local, default if default is not None else [])

    def __contains__(self, local):
        return local in self.last or local in self.base.defs


def table(F, syms, actions, record_returns=True, entry=0, max_nodes=120000, path_sensitive=False,
          store_fields=()):
    """{assignment (tuple of labels, in syms order): frozenset of action tuples}.
    An action tuple ends with ('ret', <value>) entries for stores into the return place and with
    ('diverge',) when the path does not return. With path_sensitive=True the returned value is rendered
    from the definitions met on that very path (no phi of all arms)."""
    du = DefUse(F)
    c = F.cfg()
    cache = {}
    out = {}
    headers = set(c.loops().keys())
    doms = [list(s.domain.items()) for s in syms]
    # definition sites per block (for path-sensitive rendering)
    bdefs = {}
    if path_sensitive:
        for st in F.stmts():
            if st.dst is not None and st.dst.is_local():
                bdefs.setdefault(st.bb, []).append((st.dst.local, ("assign", st)))
        for tm in F.terms():
            if tm.is_call and tm.dst is not None and tm.dst.is_local():
                bdefs.setdefault(tm.bb, []).append((tm.dst.local, ("call", tm)))
    for combo in itertools.product(*doms):
        assign = {s.name: v for s, (v, _) in zip(syms, combo)}
        labels = tuple(l for _, l in combo)
        results = set()
        seen = set()
        stack = [(entry, (), (), ())]
        nodes = 0
        while stack:
            bb, acts, pd, hist = stack.pop()
            if bb in headers:
                hd = dict(hist)
                hd[bb] = hd.get(bb, 0) + 1
                if hd[bb] > 2:
                    # third visit of a loop header on one path: cut (the iteration pattern is already recorded)
                    results.add(acts + (("loop-cut",),))
                    continue
                hist = tuple(sorted(hd.items()))
            nodes += 1
            if nodes > max_nodes:
                results.add((("explosion",),))
                break
            if (bb, acts, pd, hist) in seen:
                continue
            seen.add((bb, acts, pd, hist))
            b = F.blocks[bb]
            t = b["term"]
            cur = acts
            if path_sensitive and bb in bdefs:
                d = dict(pd)
                for local, site in bdefs[bb]:
                    d[local] = (site[0], site[1].bb, getattr(site[1], "idx", -1))
                pd = tuple(sorted(d.items()))
            if store_fields:
                for st in F.block_stmts(bb):
                    if st.dst is not None and st.dst.fields():
                        fname = st.dst.fields()[-1].rsplit(".", 1)[-1]
                        if fname in store_fields:
                            sdu = _PathDefs(F, du, _resolve(F, pd)) if path_sensitive else du
                            val = show(expr(F, st.rv["use"], sdu)) if st.rv and "use" in st.rv else _ret_desc(F, st.j, sdu)
                            cur = cur + (("store", "%s=%s" % (fname, val)),)
            if record_returns and not path_sensitive:
                for s in b["stmts"]:
                    if s["k"] == "assign" and s["dst"]["local"] == 0 and not s["dst"]["proj"]:
                        cur = tuple(a for a in cur if a[0] != "ret") + (("ret", _ret_desc(F, s, du)),)
            if t["k"] == "call":
                tm = F.term(bb)
                for a in actions:
                    if a.match(tm):
                        if path_sensitive:
                            pdu = _PathDefs(F, du, _resolve(F, pd))
                            cur = cur + ((a.name, a.describe(F, tm, pdu) if a.describe else ""),)
                        else:
                            cur = cur + ((a.name, a.describe(F, tm, du) if a.describe else ""),)
                        break
                if record_returns and not path_sensitive and t["dst"]["local"] == 0 and not t["dst"]["proj"]:
                    cur = tuple(a for a in cur if a[0] != "ret") + (("ret", "call " + _short_callee(tm)),)
            if t["k"] == "return":
                if record_returns and path_sensitive:
                    pdu = _PathDefs(F, du, _resolve(F, pd))
                    cur = cur + (("ret", show(expr(F, Place({"local": 0, "proj": []}), pdu))),)
                results.add(cur)
                continue
            succ = c.succ[bb]
            if not succ:
                results.add(cur + (("diverge",),))
                continue
            if t["k"] == "switch" and len(succ) > 1:
                if path_sensitive:
                    pdu = _PathDefs(F, du, _resolve(F, pd))
                    ev = expr(F, t["on"], pdu)
                    known = None
                    if ev[0] == "const" and isinstance(ev[1], int):
                        known = ev[1]
                    elif ev[0] == "discr" and ev[1][0] == "agg" and len(ev[1]) > 3 and ev[1][3] is not None:
                        known = ev[1][3] & 0xFF if ev[1][3] < 0 else ev[1][3]
                    elif ev[0] == "un" and ev[1] == "Not" and ev[2][0] == "const" and isinstance(ev[2][1], int):
                        known = 0 if ev[2][1] else 1
                    if known is not None:
                        explicit = dict((v, tb) for v, tb in t["targets"])
                        stack.append((explicit.get(known, t["otherwise"]), cur, pd, hist))
                        continue
                    ss = _switch_symbol(F, bb, syms, pdu, {})
                else:
                    ss = _switch_symbol(F, bb, syms, du, cache)
                if ss is not None:
                    s, neg = ss[0], ss[1]
                    val = assign[s.name]
                    if len(ss) > 2:
                        cond = (val == ss[2][1])
                        if neg:
                            cond = not cond
                        val = 1 if cond else 0
                    elif s.kind == "bool" and neg:
                        val = 0 if val else 1
                    explicit = dict((v, tb) for v, tb in t["targets"])
                    tgt = explicit[val] if val in explicit else t["otherwise"]
                    stack.append((tgt, cur, pd, hist))
                    continue
            for x in succ:
                stack.append((x, cur, pd, hist))
        out[labels] = frozenset(results)
    return out


def _resolve(F, pd):
    """(local, (kind, bb, idx)) tuples -> {local: (kind, site)}"""
    out = {}
    for local, (kind, bb, idx) in pd:
        if kind == "call":
            out[local] = ("call", F.term(bb))
        else:
            for st in F.block_stmts(bb):
                if st.idx == idx:
                    out[local] = ("assign", st)
    return out


def _short_callee(tm):
    from .facts import short_path
    c = tm.callee or tm.j.get("callee_ty", "?")
    return short_path(c)


def _ret_desc(F, s, du):
    rv = s["rv"]
    if "agg" in rv and isinstance(rv["agg"], dict) and "adt" in rv["agg"]:
        a = rv["agg"]
        inner = ""
        if rv["ops"]:
            inner = "(" + ", ".join(show(expr(F, o, du)) for o in rv["ops"]) + ")"
        return a["adt"].rsplit("::", 1)[-1] + "::" + a["variant"] + inner
    if "use" in rv:
        return show(expr(F, rv["use"], du))
    return show(expr(F, Place(s["dst"]), du))


def is_field_get(field_suffix):
    """matcher: Cell::get(&x.<field>) / the field place itself."""
    def m(e):
        if e[0] == "call" and e[1].endswith("cell::Cell::get") and e[2]:
            a = e[2][0]
            return a[0] == "field" and a[2][-1] == field_suffix
        if e[0] == "field":
            return e[2][-1] == field_suffix
        return False
    return m


def is_arg(n):
    return lambda e: e == ("arg", n) or (e[0] == "field" and e[1] == ("arg", n) and False)


def enum_domain(prog, adt_path):
    a = prog.adts[adt_path]
    return {v["discr"]: v["name"] for v in a["variants"]}


def summarize(results):
    """frozenset of action tuples -> sorted list of compact strings."""
    out = []
    for r in results:
        out.append(" ; ".join("%s%s" % (a[0], ("(" + a[1] + ")") if len(a) > 1 and a[1] else "") for a in r))
    return sorted(out)
