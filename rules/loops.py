"""Helpers for `for x in iter` / `while let Some(x) = stack.pop()` loops in MIR."""
from .cfg import DefUse
from .pdom import bool_source, callee_matches, excused_edges

ADVANCE = ("Iterator::next", "alloc::vec::Vec::pop", "core::iter::traits::iterator::Iterator::next",
           "VecDeque::pop_front", "alloc::vec::drain::Drain")


class ElemLoop:
    def __init__(self, F, header, body, switch_bb, some_target, none_targets, advance_call):
        self.F, self.header, self.body = F, header, body
        self.switch_bb, self.some_target, self.none_targets = switch_bb, some_target, none_targets
        self.advance_call = advance_call

    def __repr__(self):
        return "loop(header bb%d, switch bb%d, some->bb%d, advance %s)" % (
            self.header, self.switch_bb, self.some_target, self.advance_call.callee)


def elem_loops(F, du=None):
    """Loops whose continuation is decided by the Option returned from next()/pop()."""
    du = du or DefUse(F)
    c = F.cfg()
    out = []
    for h, body in c.loops().items():
        for b in sorted(body):
            t = F.blocks[b]["term"]
            if t["k"] != "switch":
                continue
            src = bool_source(F, t["on"], du)
            if src is None:
                continue
            call, neg, disc = src
            if not disc or call.bb not in body:
                continue
            if callee_matches(call, ("Iterator::next", "Vec::pop", "VecDeque::pop_front")) is None:
                continue
            some = [x for x in c.succ[b] if 1 in c.edge_values(b, x)]
            none = [x for x in c.succ[b] if x not in some]
            # the Some arm stays in the loop, the None arm leaves it
            if some and some[0] in body:
                out.append(ElemLoop(F, h, body, b, some[0], none, call))
                break
    return out


def uncovered_iteration(F, loop, sink_blocks, excuse, du=None, extra_avoid_edges=()):
    """A path through one iteration (Some arm -> back to the loop header) that passes no sink block and
    takes no excused edge; None when every iteration is covered."""
    c = F.cfg()
    ex = excused_edges(F, excuse or {}, du) | set(extra_avoid_edges)
    outside = set(range(c.n)) - set(loop.body)
    avoid = set(sink_blocks) | outside
    if loop.some_target in avoid:
        return None
    return c.path([loop.some_target], [loop.header], avoid=avoid - {loop.header}, avoid_edges=ex)
