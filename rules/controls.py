"""Positive controls for zero-expected rules: tiny crates under witnesses/controls/ that contain the
forbidden construct, extracted with the same driver; the rule's query must match there."""
import hashlib
import json
import os
import re
import shutil
import subprocess

from . import extract
from .facts import Program

CTL = os.path.join(extract.VERIF, "witnesses", "controls")
_cache = {}


def _facts(name):
    crate = "ctl_" + name
    src = os.path.join(CTL, crate)
    h = hashlib.sha256()
    for root, _, fs in os.walk(src):
        for f in sorted(fs):
            h.update(open(os.path.join(root, f), "rb").read())
    for root, _, fs in os.walk(os.path.join(extract.DRIVER_SRC, "src")):
        for f in sorted(fs):
            h.update(open(os.path.join(root, f), "rb").read())
    out = os.path.join(extract.WORK, "facts", "control-" + h.hexdigest()[:16], crate)
    if os.path.exists(os.path.join(out, crate + ".json")):
        return out
    import fcntl
    os.makedirs(extract.WORK, exist_ok=True)
    lockf = open(os.path.join(extract.WORK, "control-%s.lock" % name), "w")
    fcntl.flock(lockf, fcntl.LOCK_EX)
    try:
        return _facts_locked(name, crate, src, out)
    finally:
        fcntl.flock(lockf, fcntl.LOCK_UN)
        lockf.close()


def _facts_locked(name, crate, src, out):
    if not os.path.exists(os.path.join(out, crate + ".json")):
        extract.build_driver()
        if os.path.isdir(out):
            shutil.rmtree(out)
        os.makedirs(out)
        env = extract._env_base()
        env["LD_LIBRARY_PATH"] = extract.nightly_sysroot() + "/lib"
        env["RUSTFLAGS"] = "-Zmir-opt-level=0 -Awarnings"
        env["RUSTC_WORKSPACE_WRAPPER"] = extract.DRIVER_BIN
        env["INCRFACTS_OUT"] = out
        env["INCRFACTS_CONFIG"] = "control"
        env["INCRFACTS_CRATES"] = crate
        env["CARGO_TARGET_DIR"] = os.path.join(extract.WORK, "tgt", "control-" + name)
        shutil.rmtree(env["CARGO_TARGET_DIR"], ignore_errors=True)
        r = subprocess.run(["cargo", "+nightly", "check", "--offline"], cwd=src, env=env, stdout=subprocess.PIPE,
                           stderr=subprocess.STDOUT, text=True)
        if r.returncode != 0 or not os.path.exists(os.path.join(out, crate + ".json")):
            return None
    return out


def control_program(name):
    if name not in _cache:
        d = _facts(name)
        _cache[name] = Program(d, "control", inline=False) if d else None
    return _cache[name]


def control_hits(name, callee_regex):
    p = control_program(name)
    if p is None:
        return None
    return len(p.calls_to(callee_regex))
