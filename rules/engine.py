"""Rule runner: loads facts per configuration, runs a property's rules, applies the known-findings
list, writes evidence and prints VIOLATION / KNOWN-FINDING lines."""
import importlib
import json
import os
import sys
import time
import traceback

from . import extract
from .facts import Program

VERIF = extract.VERIF
EVIDENCE = os.path.join(VERIF, "evidence")
KNOWN = os.path.join(VERIF, "known_findings.json")

_PROG_CACHE = {}


def load_program(config, thash=None, log=sys.stderr):
    d = extract.extract(config, thash=thash, log=log)
    key = d
    if key not in _PROG_CACHE:
        _PROG_CACHE[key] = Program(d, config)
    return _PROG_CACHE[key]


class Finding:
    def __init__(self, prop, rule, function, instance, msg, span=None, config=None, path=None,
                 kind="rule"):
        self.prop, self.rule, self.function, self.instance = prop, rule, function, instance
        self.msg, self.span, self.config, self.path, self.kind = msg, span, config, path, kind
        self.configs = [config] if config else []

    def key(self):
        return "%s|%s|%s" % (self.rule, self.function or "-", self.instance or "-")

    def to_json(self):
        return {"property": self.prop, "rule": self.rule, "function": self.function,
                "instance": self.instance, "message": self.msg, "span": self.span,
                "configs": self.configs, "path": self.path, "kind": self.kind, "key": self.key()}


class Ctx:
    """Passed to every rule. A rule reports each *obligation* (rule instance) it evaluates with
    ok()/fail(); sites() counts the program sites it inspected; floor() fails closed when fewer
    sites matched than were counted by hand when the rule was frozen."""

    def __init__(self, prop, tier):
        self.prop = prop
        self.tier = tier
        self.config = None
        self.prog = None
        self.obligations = []       # (rule, instance, ok, config, detail)
        self.findings = {}          # key -> Finding
        self.site_count = 0
        self.distinct_sites = set()
        self.samples = []
        self.rule_sites = {}
        self.rule_texts = {}
        self.fn_seen = set()

    # -- bookkeeping
    def rule(self, rule_id, text):
        self.rule_texts[rule_id] = text

    def site(self, rule, fn, what):
        """Record one inspected program site (function, construct)."""
        self.site_count += 1
        fpath = fn.path if hasattr(fn, "path") else str(fn)
        self.fn_seen.add(fpath)
        k = (rule, fpath, str(what))
        if k not in self.distinct_sites:
            self.distinct_sites.add(k)
            self.rule_sites[rule] = self.rule_sites.get(rule, 0) + 1
            if len(self.samples) < 400:
                self.samples.append({"rule": rule, "function": fpath, "site": str(what),
                                     "config": self.config})

    def ok(self, rule, instance, detail=""):
        self.obligations.append((rule, instance, True, self.config, detail))

    def fail(self, rule, instance, msg, fn=None, span=None, path=None, kind="rule"):
        self.obligations.append((rule, instance, False, self.config, msg))
        fpath = fn.path if hasattr(fn, "path") else fn
        if span is None and hasattr(fn, "span"):
            span = fn.span
        f = Finding(self.prop, rule, fpath, instance, msg, span, self.config, path, kind)
        k = f.key()
        if k in self.findings:
            if self.config not in self.findings[k].configs:
                self.findings[k].configs.append(self.config)
        else:
            self.findings[k] = f

    def missing(self, rule, anchor):
        """Fail closed: an anchor (function, field, call site) the rule is built on is gone."""
        self.fail(rule, "anchor:" + anchor, "anchor not found: %s (renamed or removed; the frozen "
                  "tables must be re-confirmed)" % anchor, fn=None, kind="anchor")

    def floor(self, rule, n, floor):
        if n < floor:
            self.fail(rule, "floor", "rule matched %d site(s), frozen floor is %d: the construct "
                      "this rule inspects has disappeared" % (n, floor), kind="floor")
        else:
            self.ok(rule, "floor>=%d" % floor, "matched %d" % n)

    def need_fn(self, rule, path):
        F = self.prog.fn(path)
        if F is None:
            self.missing(rule, path)
        return F


def run_relabelled(ctx, prog, fn, old_id, new_id):
    """Run a rule of another property and re-label its obligations/findings under the current property."""
    n_ob = len(ctx.obligations)
    before = set(ctx.findings)
    fn(ctx, prog)
    ctx.obligations[n_ob:] = [(new_id if o[0] == old_id else o[0],) + tuple(o[1:]) for o in ctx.obligations[n_ob:]]
    for k in list(ctx.findings):
        if k in before:
            continue
        f = ctx.findings.pop(k)
        if f.rule == old_id:
            f.rule = new_id
        prev = ctx.findings.get(f.key())
        if prev is not None:
            for c in f.configs:
                if c not in prev.configs:
                    prev.configs.append(c)
        else:
            ctx.findings[f.key()] = f
    if old_id in ctx.rule_texts:
        ctx.rule_texts[new_id] = ctx.rule_texts.pop(old_id)
    if old_id in ctx.rule_sites:
        ctx.rule_sites[new_id] = ctx.rule_sites.pop(old_id)


def load_known():
    if not os.path.exists(KNOWN):
        return []
    with open(KNOWN) as fh:
        return json.load(fh).get("findings", [])


def run_property(prop, tier="quick", configs=None, only_rule=None, quiet=False, out=sys.stdout,
                 write_evidence=True, thash=None):
    t0 = time.time()
    mod = importlib.import_module("rules.%s" % prop.lower())
    if configs is None:
        configs = list(getattr(mod, "CONFIGS_%s" % tier.upper(), None)
                       or (extract.QUICK_CONFIGS if tier == "quick" else extract.THOROUGH_CONFIGS))
    ctx = Ctx(prop, tier)
    if thash is None:
        thash, nfiles = extract.tree_hash()
    n_fns = 0
    n_calls = 0
    per_config = {}
    for cfg in configs:
        try:
            prog = load_program(cfg, thash=thash)
        except extract.ExtractError as e:
            print("ERROR: %s" % e, file=out)
            return 2
        ctx.config = cfg
        ctx.prog = prog
        per_config[cfg] = {"functions": len(prog.fns), "call_sites": prog.n_call_sites()}
        n_fns += len(prog.fns)
        n_calls += per_config[cfg]["call_sites"]
        for rule_fn in mod.RULES:
            rid = getattr(rule_fn, "rule_id", rule_fn.__name__)
            if only_rule and rid != only_rule:
                continue
            if getattr(rule_fn, "configs", None) and cfg not in rule_fn.configs:
                continue
            try:
                rule_fn(ctx, prog)
            except Exception as e:  # a crashing rule is a broken check, fail closed
                ctx.fail(rid, "exception", "rule crashed: %r\n%s" % (e, traceback.format_exc()[-1500:]),
                         kind="crash")
    known = load_known()
    known_keys = {}
    for k in known:
        if k.get("status") == "known" and k.get("property") == prop:
            known_keys[k["key"]] = k
    violations = []
    known_hit = []
    for key, f in sorted(ctx.findings.items()):
        if key in known_keys:
            known_hit.append((f, known_keys[key]))
        else:
            violations.append(f)
    os.makedirs(os.path.join(EVIDENCE, "violations"), exist_ok=True)
    for f, k in known_hit:
        print("KNOWN-FINDING: property=%s %s [%s]" % (prop, k.get("what", f.msg), f.key()), file=out)
    for i, f in enumerate(violations):
        rp = os.path.join(EVIDENCE, "violations", "%s-%d.json" % (prop, i))
        with open(rp, "w") as fh:
            json.dump(f.to_json(), fh, indent=1)
        print("%s: rule %s  function %s  instance %s  configs=%s\n    %s" % (
            f.span or "?", f.rule, f.function, f.instance, ",".join(f.configs), f.msg), file=out)
        if f.path:
            print("    path: %s" % f.path, file=out)
        print("VIOLATION property=%s replay=%s" % (prop, rp), file=out)
    n_obl = len(ctx.obligations)
    n_ok = sum(1 for o in ctx.obligations if o[2])
    wall = time.time() - t0
    if write_evidence and not only_rule:
        ev = {
            "property_id": prop,
            "tier": tier,
            "seed": int(os.environ.get("VERIF_SEED", "0") or 0),
            "level": "other",
            "coverage": {
                "explanation": getattr(mod, "EXPLANATION", ""),
                "not_decided": getattr(mod, "NOT_DECIDED", ""),
                "obligations": n_obl,
                "discharged": n_ok,
                "evaluations": ctx.site_count,
                "distinct_nontrivial": len(ctx.distinct_sites),
                "rule": "one evaluation = one program site (function, basic block / field / call "
                        "site) inspected by a rule instance in one build configuration; distinct = "
                        "distinct (rule, function, site) triples; trivial sites (rules that only "
                        "count) are not recorded",
                "rules": ctx.rule_texts,
                "sites_per_rule": ctx.rule_sites,
                "samples": ctx.samples[:60],
                "configs": per_config,
                "functions_analysed": n_fns,
                "functions_matched": len(ctx.fn_seen),
                "call_sites": n_calls,
                "tree_hash": thash,
                "checker_cmd": "./check %s --tier %s" % (prop, tier),
                "trusted_base": ["rustc nightly MIR construction and trait resolution",
                                 "engine/incrfacts (fact extractor, no rule logic)",
                                 "frozen specification tables in rules/%s.py" % prop.lower()],
                "known_findings_reported": [f.key() for f, _ in known_hit],
                "exhaustive": True,
            },
            "assumptions": list(getattr(mod, "ASSUMPTIONS", [])),
            "wall_s": round(wall, 3),
            "violations": len(violations),
        }
        os.makedirs(EVIDENCE, exist_ok=True)
        tmp = os.path.join(EVIDENCE, ".%s.json.tmp" % prop)
        with open(tmp, "w") as fh:
            json.dump(ev, fh, indent=1)
        os.replace(tmp, os.path.join(EVIDENCE, "%s.json" % prop))
    if not quiet:
        print("%s %s: %d obligations, %d discharged, %d sites (%d distinct), %d known, %d violations, "
              "configs=%s, %.1fs" % (prop, tier, n_obl, n_ok, ctx.site_count, len(ctx.distinct_sites),
                                     len(known_hit), len(violations), ",".join(configs), wall), file=out)
    return 1 if violations else 0
