"""C15 — incremental-map diff operators equal their definitions (structural clauses)."""
from . import mapops

EXPLANATION = (
    "Decided clause of C15: the decision tables of the diff-based operators, extracted for every combination of "
    "their guards, are the specified ones: incr_filter_mapi (initial/empty -> one full filter_map_collect, "
    "otherwise fold the diff of (old input, new input) into the old output; Left -> remove key; Right/Unequal -> "
    "f(key, NEW value) then insert or remove), incr_unordered_fold_with (None -> initial_fold; revert && empty "
    "-> init; otherwise Left -> remove, Right -> add, Unequal(l,r) -> update(l,r); default update = remove then "
    "add; the closure-carrying folds call the closure of the same name with arguments in order), incr_merge in "
    "both map implementations (data pair per merge element, (Some,None)->Left, (None,Some)->Right, "
    "(Some,Some)->Both, result None -> remove, Some -> insert) with the BTreeMap and OrdMap siblings agreeing, "
    "PartitionMapi (a key ends in exactly one side), and with_old_input_output(2) stores the new input after "
    "every call and builds the old pair from the old output and the taken old input.")
NOT_DECIDED = "Equality of the observed output with the plain function of the input over all edit sequences."
ASSUMPTIONS = ["C18 (the diff visits exactly the differing keys)", "map insert/remove/get have their std semantics"]


def ops_filter_mapi(ctx, prog):
    R = "C15.DTAB-filter-mapi"
    ctx.rule(R, "incr_filter_mapi guard and per-element tables")
    mapops.filter_mapi(ctx, prog, R)


def ops_fold(ctx, prog):
    R = "C15.DTAB-unordered-fold"
    ctx.rule(R, "incr_unordered_fold_with guard and per-element tables, trait defaults, closure folds")
    mapops.unordered_fold(ctx, prog, R)


def ops_merge(ctx, prog):
    R = "C15.DTAB-merge"
    ctx.rule(R, "incr_merge per-element table in both implementations; siblings agree")
    mapops.merge(ctx, prog, R)


def ops_partition(ctx, prog):
    R = "C15.DTAB-partition"
    ctx.rule(R, "PartitionMapi add/remove/update put the key in exactly one side")
    mapops.partition(ctx, prog, R)


def pair(ctx, prog):
    R = "C15.PDOM-pair"
    ctx.rule(R, "with_old_input_output(2): *old_input = Some(new input) after f on every path; old pair = (taken old "
                "input, old output)")
    mapops.pdom_pair(ctx, prog, R)


for _f, _id in ((ops_filter_mapi, "C15.DTAB-filter-mapi"), (ops_fold, "C15.DTAB-unordered-fold"),
                (ops_merge, "C15.DTAB-merge"), (ops_partition, "C15.DTAB-partition"), (pair, "C15.PDOM-pair")):
    _f.rule_id = _id

def diff_merge_once(ctx, prog):
    """The BTreeMap operators get their diff from MergeOnce / SymmetricDiff; their tables (C18) are a
    necessary condition of C15 and are reported here too."""
    from .engine import run_relabelled
    from .c18 import merge_once, symmetric_diff
    run_relabelled(ctx, prog, merge_once, "C18.DTAB-merge-once", "C15.DTAB-diff-source")
    run_relabelled(ctx, prog, symmetric_diff, "C18.DTAB-symmetric-diff", "C15.DTAB-diff-source")


diff_merge_once.rule_id = "C15.DTAB-diff-source"

RULES = [ops_filter_mapi, ops_fold, ops_merge, ops_partition, pair, diff_merge_once]

# control signature of the bookkeeping effects this property depends on (rules/ctrlsig.py)
from .ctrlsig import make_rule as _ctrl_rule  # noqa: E402
RULES.append(_ctrl_rule("C15"))
