"""Decision tables of the incremental-map operators (shared by C15, C16, C17)."""
from . import q, dtab
from .cfg import DefUse
from .expr import expr, show, mentions, walk, closure_paths
from .facts import Place, op_place

IM = "<incremental::incr::Incr<M> as incremental_map::IncrMap<M>>::"
WO = "<incremental::incr::Incr<T> as incremental_map::WithOldIO<T>>::"
DE = "incremental_map::symmetric_fold::DiffElement"
ME = "incremental_map::symmetric_fold::MergeElement"


def _seqs(res, names_only=False):
    out = set()
    for r in res:
        if ("diverge",) in r:
            continue
        if names_only:
            out.add(tuple(a[0] for a in r))
        else:
            out.add(tuple("%s%s" % (a[0], "(" + a[1] + ")" if len(a) > 1 and a[1] else "") for a in r))
    return out


def _args(*idx):
    def d(F_, t, du_):
        return ",".join(show(expr(F_, t.args[i], du_)) for i in idx if i < len(t.args))
    return d


def _act(name, *callees, desc=None):
    return dtab.Action(name, lambda t: q.callee_is(t, *callees), desc)


def upvar_stores(F, name_part):
    """Statements that assign through a captured `&mut` variable whose name contains name_part."""
    du = DefUse(F)
    out = []
    for s in F.stmts():
        if s.dst is None or F.is_cleanup(s.bb):
            continue
        if any(name_part in f for f in s.dst.fields()):
            out.append(s)
            continue
        if s.dst.proj == ["deref"]:
            base = expr(F, Place({"local": s.dst.local, "proj": []}), du)
            if base[0] == "field" and any(name_part in f for f in base[2]):
                out.append(s)
    return out


def _user_call_upvar(name_part):
    """FnMut::call_mut on a captured closure whose upvar name contains name_part."""
    def m(t):
        if not q.callee_is(t, "FnMut::call_mut", "FnOnce::call_once", "Fn::call"):
            return False
        p = t.arg_place(0)
        return p is not None
    return m


# ------------------------------------------------------------------------------------------ filter_mapi

def filter_mapi(ctx, prog, R, full_pass_only=False):
    """incr_filter_mapi: outer guard table and per-diff-element table."""
    F = ctx.need_fn(R, IM + "incr_filter_mapi::{closure#0}")
    if F is None:
        return
    syms = [dtab.Sym("len", lambda e: e[0] == "call" and e[1].endswith("::len") and e[2] == (("arg", 3),),
                     {0: "empty", 1: "nonempty"}, "bool"),
            dtab.Sym("old", lambda e: e == ("arg", 2), {0: "None", 1: "Some"})]
    acts = [_act("collect", "SymmetricMapMap::filter_map_collect", desc=_args(0, 1)),
            _act("diff-fold", "SymmetricFoldMap::symmetric_fold", desc=lambda F_, t, du_: ",".join(
                show(expr(F_, t.args[i], du_)) for i in (0, 1, 2)))]
    tb = dtab.table(F, syms, acts, path_sensitive=True, record_returns=True)
    for (ln, old), res in sorted(tb.items()):
        got = _seqs(res)
        ctx.site(R, F, "(%s,%s) -> %s" % (ln, old, sorted(got)))
        if ln == "empty" or old == "None":
            good = len(got) == 1 and list(got)[0][0] == "collect(arg3,arg1.upvar#0:f)" and \
                list(got)[0][-1].startswith("ret(tuple(filter_map_collect(") and list(got)[0][-1].endswith(", 1))")
            why = "initial / empty input: one full pass, result reported as changed"
        else:
            s = list(got)[0] if len(got) == 1 else ()
            good = bool(s) and s[0] == "diff-fold(arg2.0.0,arg3,make_mut(arg2.0.1))" and "collect" not in " ".join(s) and \
                s[-1].startswith("ret(tuple(arg2.0.1, ")
            why = "incremental round: fold the diff of (old input, new input) into the old output, no full pass"
        inst = "filter_mapi:%s/%s" % (ln, old)
        if good:
            ctx.ok(R, inst)
        else:
            ctx.fail(R, inst, "incr_filter_mapi with (input %s, old %s) does %s; %s" % (ln, old, sorted(got), why), fn=F)
    if full_pass_only:
        return
    G = ctx.need_fn(R, IM + "incr_filter_mapi::{closure#0}::{closure#0}")
    if G is None:
        return
    gdu = DefUse(G)
    fcalls = [t for t in G.calls() if q.callee_is(t, "FnMut::call_mut")]
    fsym = dtab.Sym("f", lambda e: e[0] == "call" and e[1].endswith("call_mut"), {0: "None", 1: "Some"})
    syms = [dtab.Sym("diff", lambda e: e[0] == "field" and e[1] == ("arg", 3) and e[2] == ("1",), dtab.enum_domain(prog, DE)), fsym]
    acts = [dtab.Action("f", lambda t: q.callee_is(t, "FnMut::call_mut"), _args(1)),
            _act("remove", "GenericMap::remove", desc=_args(0, 1)),
            _act("insert", "GenericMap::insert", desc=_args(0, 1, 2))]
    tb = dtab.table(G, syms, acts, path_sensitive=True, record_returns=False, store_fields=())
    for (d, fr), res in sorted(tb.items()):
        got = _seqs(res)
        ctx.site(R, G, "(%s,f=%s) -> %s" % (d, fr, sorted(got)))
        newv = {"Right": "arg3.1.0", "Unequal": "arg3.1.1"}.get(d)
        if d == "Left":
            want = {("remove(arg2,arg3.0)",)}
        elif fr == "Some":
            want = {("f(tuple(arg3.0, %s))" % newv,
                     "insert(arg2,arg3.0,call_mut(arg1.upvar#1:f, tuple(arg3.0, %s)).0)" % newv)}
        else:
            want = {("f(tuple(arg3.0, %s))" % newv, "remove(arg2,arg3.0)")}
        inst = "filter_mapi-elem:%s/%s" % (d, fr)
        if got == want:
            ctx.ok(R, inst)
        else:
            ctx.fail(R, inst, "diff element %s (f -> %s): %s, specified %s (the *new* value of the key is mapped; "
                     "None removes the key)" % (d, fr, sorted(got), sorted(want)), fn=G)
    # did_change := true on every path
    stores = upvar_stores(G, "did_change")
    c = G.cfg()
    okdc = bool(stores) and all(s.rv and "use" in s.rv and q.op_const(s.rv["use"]) and q.op_const(s.rv["use"]).get("int") == 1
                                for s in stores) and c.path([0], c.exits, avoid={s.bb for s in stores}) is None
    if okdc:
        ctx.ok(R, "filter_mapi-elem:did_change")
    else:
        ctx.fail(R, "filter_mapi-elem:did_change", "a diff element can be processed without marking the output changed", fn=G)
    # the wrappers delegate
    for w, shape in (("incr_map", "Some"), ("incr_mapi", "Some"), ("incr_filter_map", None)):
        W = prog.fn(IM + w)
        if W is None:
            ctx.missing(R, "IncrMap::" + w)
            continue
        if q.calls_in(W, "IncrMap::incr_filter_mapi", "incr_filter_mapi"):
            ctx.ok(R, "delegates:" + w)
        else:
            ctx.fail(R, "delegates:" + w, "%s no longer delegates to incr_filter_mapi" % w, fn=W)


# ------------------------------------------------------------------------------------------ unordered fold

def unordered_fold(ctx, prog, R, full_pass_only=False):
    F = ctx.need_fn(R, IM + "incr_unordered_fold_with::{closure#0}")
    if F is None:
        return
    syms = [dtab.Sym("old", lambda e: e == ("arg", 2), {0: "None", 1: "Some"}),
            dtab.Sym("revert", lambda e: e[0] == "call" and e[1].endswith("revert_to_init_when_empty"), {0: "no", 1: "yes"}, "bool"),
            dtab.Sym("new_empty", lambda e: e[0] == "call" and e[1].endswith("is_empty") and e[2] == (("arg", 3),),
                     {0: "nonempty", 1: "empty"}, "bool")]
    acts = [_act("initial", "UnorderedFold::initial_fold", desc=_args(1, 2)),
            _act("diff-fold", "SymmetricFoldMap::symmetric_fold", desc=_args(0, 1, 2))]
    tb = dtab.table(F, syms, acts, path_sensitive=True, record_returns=True)
    for (old, rv, ne), res in sorted(tb.items()):
        got = _seqs(res)
        ctx.site(R, F, "(%s,%s,%s) -> %s" % (old, rv, ne, sorted(got)))
        s = list(got)[0] if len(got) == 1 else ()
        if old == "None":
            good = bool(s) and s[0] == "initial(arg1.upvar#1:init,arg3)" and s[-1].endswith(", 1))")
            why = "first round: initial_fold(init, input), changed"
        elif rv == "yes" and ne == "empty":
            good = bool(s) and len(s) == 1 and s[0].startswith("ret(tuple(arg1.upvar#1:init, Not(is_empty(arg2.0.0))))")
            why = "revert: result is init, changed iff the old input was non-empty"
        else:
            good = bool(s) and s[0] == "diff-fold(arg2.0.0,arg3,arg2.0.1)" and "initial" not in " ".join(s)
            why = "incremental round: fold the diff of (old input, new input) over the old output"
        inst = "fold:%s/%s/%s" % (old, rv, ne)
        if good:
            ctx.ok(R, inst)
        else:
            ctx.fail(R, inst, "incr_unordered_fold_with (old %s, revert %s, new %s) does %s; %s" % (old, rv, ne, sorted(got), why), fn=F)
    if full_pass_only:
        return
    G = ctx.need_fn(R, IM + "incr_unordered_fold_with::{closure#0}::{closure#0}")
    if G is not None:
        syms = [dtab.Sym("diff", lambda e: e[0] == "field" and e[1] == ("arg", 3) and e[2] == ("1",), dtab.enum_domain(prog, DE))]
        acts = [_act("remove", "UnorderedFold::remove", desc=_args(1, 2, 3)), _act("add", "UnorderedFold::add", desc=_args(1, 2, 3)),
                _act("update", "UnorderedFold::update", desc=_args(1, 2, 3, 4))]
        tb = dtab.table(G, syms, acts, path_sensitive=True, record_returns=False)
        want = {"Left": {("remove(arg2,arg3.0,arg3.1.0)",)}, "Right": {("add(arg2,arg3.0,arg3.1.0)",)},
                "Unequal": {("update(arg2,arg3.0,arg3.1.0,arg3.1.1)",)}}
        for (d,), res in sorted(tb.items()):
            got = _seqs(res)
            ctx.site(R, G, "%s -> %s" % (d, sorted(got)))
            if got == want[d]:
                ctx.ok(R, "fold-elem:" + d)
            else:
                ctx.fail(R, "fold-elem:" + d, "diff element %s: %s, specified %s" % (d, sorted(got), sorted(want[d])), fn=G)
    # defaults of the trait
    U = ctx.need_fn(R, "incremental_map::UnorderedFold::update")
    if U is not None:
        du = DefUse(U)
        seq = [(q.short_path(t.callee), [show(expr(U, a, du)) for a in t.args[1:]]) for t in U.calls()
               if q.callee_is(t, "UnorderedFold::remove", "UnorderedFold::add")]
        ctx.site(R, U, "default update = %s" % seq)
        good = len(seq) == 2 and seq[0][0].endswith("remove") and seq[0][1][1:] == ["arg3", "arg4"] and \
            seq[1][0].endswith("add") and seq[1][1][1:] == ["arg3", "arg5"] and "remove" in seq[1][1][0]
        if good:
            cs = [t for t in U.calls() if q.callee_is(t, "UnorderedFold::remove", "UnorderedFold::add")]
            good = U.cfg().dominates(cs[0].bb, cs[1].bb)
        if good:
            ctx.ok(R, "fold-default:update")
        else:
            ctx.fail(R, "fold-default:update", "default update is not remove(acc,key,old) then add(..,key,new): %s" % seq, fn=U)
    I = ctx.need_fn(R, "incremental_map::UnorderedFold::initial_fold")
    if I is not None:
        okk = bool(q.calls_in(I, "SymmetricFoldMap::nonincremental_fold"))
        for Gc in prog.closures_of(I):
            if q.calls_in(Gc, "UnorderedFold::add"):
                okk = okk and True
        if okk:
            ctx.ok(R, "fold-default:initial")
        else:
            ctx.fail(R, "fold-default:initial", "default initial_fold does not add every entry", fn=I)
    # the closure-carrying folds call the closure of the same name
    for ty, fields in (("PlainUnorderedFold<M, K, V, R, FAdd, FRemove>", ("add", "remove")),
                       ("UpdateUnorderedFold<M, K, V, R, FAdd, FRemove, FUpdate>", ("add", "remove", "update"))):
        for m in fields:
            P = prog.fn("<incremental_map::%s as incremental_map::UnorderedFold<M, K, V, R>>::%s" % (ty, m))
            if P is None:
                ctx.missing(R, "%s::%s" % (ty.split("<")[0], m))
                continue
            du = DefUse(P)
            cs = [t for t in P.calls() if q.callee_is(t, "FnMut::call_mut")]
            good = False
            for t in cs:
                recv = expr(P, t.args[0], du)
                args = expr(P, t.args[1], du)
                ctx.site(R, P, "%s -> call %s%s" % (m, show(recv), show(args)))
                n_args = 4 if m != "update" else 5
                if recv[0] == "field" and recv[2][-1] == m and args[0] == "agg" and \
                        list(args[2]) == [("arg", i) for i in range(2, n_args + 1)]:
                    good = True
            if good:
                ctx.ok(R, "fold-impl:%s::%s" % (ty.split("<")[0], m))
            else:
                ctx.fail(R, "fold-impl:%s::%s" % (ty.split("<")[0], m), "%s::%s does not call its `%s` closure with the "
                         "arguments in order" % (ty.split("<")[0], m, m), fn=P)


# ------------------------------------------------------------------------------------------ merge

MERGE_IMPLS = {
    "btree": "<incremental::incr::Incr<alloc::collections::btree::map::BTreeMap<K, V>> as incremental_map::btree_map::IncrBTreeMap<K, V>>::incr_merge",
    "ordmap": "<incremental::incr::Incr<im_rc::ord::map::OrdMap<K, V>> as incremental_map::im_rc::IncrOrdMap<K, V>>::incr_merge",
}


def _merge_table(prog, G):
    is_data = lambda i: (lambda e: True)
    syms = [dtab.Sym("elem", lambda e: e == ("arg", 4), dtab.enum_domain(prog, ME)),
            dtab.Sym("l", lambda e: False, {0: "None", 1: "Some"}), dtab.Sym("r", lambda e: False, {0: "None", 1: "Some"}),
            dtab.Sym("out", lambda e: e[0] == "call" and e[1].endswith("call_mut"), {0: "None", 1: "Some"})]
    # the (left, right) option pair is a tuple local: recognise `discr(<tuple>.0)` / `.1` path-sensitively
    def tuple_comp(i):
        def m(e):
            # after projection selection the component itself is seen: new_data(..) / get(..)
            return False
        return m
    return syms


def merge(ctx, prog, R):
    tables = {}
    for name, path in MERGE_IMPLS.items():
        G = ctx.need_fn(R, path + "::{closure#0}::{closure#0}")
        if G is None:
            continue
        gdu = DefUse(G)
        # which operand is the left / right datum per merge element (path-sensitive expression of the pair)
        def lr_sym(side):
            def m(e):
                if e[0] != "call":
                    return False
                if side == "l":
                    return (e[1].endswith("new_data") and e[2] and show(e[2][0]).startswith("arg4.0.1")) or \
                           (e[1].endswith("::get") and mentions(e, lambda x: x[0] == "field" and any("new_left_map" in f for f in x[2])))
                return False
            return m
        def is_left(e):
            return e[0] == "call" and ((e[1].endswith("::get") and mentions(e, lambda x: x[0] == "field" and any("new_left_map" in f for f in x[2]))))
        def is_right(e):
            return e[0] == "call" and ((e[1].endswith("::get") and mentions(e, lambda x: x[0] == "field" and any("new_right_map" in f for f in x[2]))))
        # new_data(..) calls: classify by the merge-element arm they sit in (see below); as symbols we simply
        # enumerate the Option discriminants of the two components of the pair
        def comp(i):
            def m(e):
                return e[0] == "call" and (e[1].endswith("new_data") or e[1].endswith("::get")) and getattr(m, "which", None) is None
            return m
        syms = [dtab.Sym("elem", lambda e: e == ("arg", 4), dtab.enum_domain(prog, ME)),
                dtab.Sym("out", lambda e: e[0] == "call" and e[1].endswith("call_mut"), {0: "None", 1: "Some"})]

        def d_f(F_, t, du_):
            e = expr(F_, t.args[1], du_)
            # tuple(key, MergeElement::X(..))
            for x in walk(e):
                if x[0] == "agg" and x[1].startswith("MergeElement::"):
                    srcs = []
                    for o in x[2]:
                        so = show(o)
                        srcs.append("left.new" if "new_data(arg4.0.1" in so and x[1] != "MergeElement::Right" or
                                    ("new_data(arg4.0.1" in so and x[1] == "MergeElement::Right" and False) else so)
                    return "%s|%s" % (x[1].split("::")[1], show(e[2][0]))
            return show(e)[:50]
        acts = [dtab.Action("f", lambda t: q.callee_is(t, "FnMut::call_mut"), d_f),
                dtab.Action("get-left", lambda t: t.callee and t.callee.endswith("::get") and mentions(
                    expr(G, t.args[0], gdu), lambda x: x[0] == "field" and any("new_left_map" in f for f in x[2])), _args(1)),
                dtab.Action("get-right", lambda t: t.callee and t.callee.endswith("::get") and mentions(
                    expr(G, t.args[0], gdu), lambda x: x[0] == "field" and any("new_right_map" in f for f in x[2])), _args(1)),
                dtab.Action("new_data", lambda t: q.callee_is(t, "DiffElement::new_data"), _args(0)),
                dtab.Action("remove", lambda t: t.callee and t.callee.endswith("::remove"), _args(0, 1)),
                dtab.Action("insert", lambda t: t.callee and t.callee.endswith("::insert"), _args(0, 1))]
        tb = dtab.table(G, syms, acts, path_sensitive=True, record_returns=False)
        norm = {}
        for (el, out), res in sorted(tb.items()):
            got = _seqs(res)
            ctx.site(R, G, "%s (%s,f=%s) -> %d path(s)" % (name, el, out, len(got)))
            norm[(el, out)] = got
            # data sources per arm
            src = {"Both": ("new_data(arg4.0.1)", "new_data(arg4.1.1)"),
                   "Left": ("new_data(arg4.0.1)", "get-right(arg3)"),
                   "Right": ("get-left(arg3)", "new_data(arg4.0.1)")}[el]
            okrow = bool(got)
            for s in got:
                pre = [a for a in s if a.startswith("new_data") or a.startswith("get-")]
                if tuple(pre) != src and tuple(pre) != src[::-1]:
                    okrow = False
                fs = [a for a in s if a.startswith("f(")]
                tail = [a for a in s if a.startswith("remove") or a.startswith("insert")]
                if len(fs) > 1 or len(tail) != 1:
                    okrow = False
                if fs:
                    # f(Variant|key): the key is arg3
                    if not fs[0].endswith("|arg3)"):
                        okrow = False
                    if out == "Some" and not tail[0].startswith("insert(arg2,arg3"):
                        okrow = False
                    if out == "None" and not tail[0].startswith("remove(arg2,arg3"):
                        okrow = False
                else:
                    # (None, None): nothing to compute, the key is removed
                    if not tail[0].startswith("remove(arg2,arg3"):
                        okrow = False
            # which MergeElement variants can f receive in this arm
            variants = {a[2:].split("|")[0] for s in got for a in s if a.startswith("f(")}
            allowed = {"Both": {"Left", "Right", "Both"}, "Left": {"Left", "Right", "Both"}, "Right": {"Left", "Right", "Both"}}[el]
            if not variants <= allowed or (got and not variants):
                okrow = False
            inst = "merge:%s:%s/%s" % (name, el, out)
            if okrow:
                ctx.ok(R, inst)
            else:
                ctx.fail(R, inst, "incr_merge (%s) for element %s with f -> %s does %s" % (name, el, out, sorted(got)), fn=G)
        tables[name] = norm
        # the Option pair -> MergeElement mapping (None,None)->no call; (Some,None)->Left; (None,Some)->Right; both->Both
        pair_ok = _merge_pair_mapping(ctx, prog, R, G, name)
        # did_change
        stores = upvar_stores(G, "did_change")
        c = G.cfg()
        if stores and c.path([0], c.exits, avoid={s.bb for s in stores}) is None:
            ctx.ok(R, "merge:%s:did_change" % name)
        else:
            ctx.fail(R, "merge:%s:did_change" % name, "a merge element can be processed without marking the output changed", fn=G)
    if len(tables) == 2:
        a, b = tables["btree"], tables["ordmap"]
        ren = lambda t: {k: {tuple(x.replace("BTreeMap", "Map").replace("OrdMap", "Map") for x in s) for s in v} for k, v in t.items()}
        if ren(a) == ren(b):
            ctx.ok(R, "merge:siblings-agree")
        else:
            diff = [k for k in a if ren(a).get(k) != ren(b).get(k)]
            ctx.fail(R, "merge:siblings-agree", "the BTreeMap and OrdMap implementations of incr_merge differ in rows %s" % diff,
                     fn=prog.fn(MERGE_IMPLS["ordmap"] + "::{closure#0}::{closure#0}"))


def _merge_pair_mapping(ctx, prog, R, G, name):
    """switches on the (Option, Option) data pair: which MergeElement variant is built on which arm."""
    du = DefUse(G)
    c = G.cfg()
    built = {}
    for s in G.stmts():
        rv = s.rv or {}
        if "agg" in rv and isinstance(rv["agg"], dict) and rv["agg"].get("adt", "").endswith("MergeElement"):
            # controlling switches on discriminants of tuple components
            key = []
            for sw, can in c.controlling_switches(s.bb):
                t = G.blocks[sw]["term"]
                p = op_place(t["on"])
                if p is None:
                    continue
                d = du.single_def(p.local)
                if d is None or d[0] != "assign" or "discr" not in (d[1].rv or {}):
                    continue
                pl = Place(d[1].rv["discr"])
                comp = [f for f in pl.fields() if f.startswith("tuple.")]
                if not comp:
                    continue
                vals = sorted({v for x in can for v in c.edge_values(sw, x) if v != "otherwise"})
                key.append((comp[-1], tuple(vals)))
            built[rv["agg"]["variant"]] = tuple(sorted(set(key)))
    want = {"Left": (("tuple.0", (1,)), ("tuple.1", (0,))), "Right": (("tuple.0", (0,)), ("tuple.1", (1,))),
            "Both": (("tuple.0", (1,)), ("tuple.1", (1,)))}
    ctx.site(R, G, "%s pair mapping %s" % (name, built))
    if built == want:
        ctx.ok(R, "merge:%s:pair" % name)
        return True
    ctx.fail(R, "merge:%s:pair" % name, "(left datum, right datum) -> MergeElement mapping is %s, specified "
             "(Some,None)->Left, (None,Some)->Right, (Some,Some)->Both" % built, fn=G)
    return False


# ------------------------------------------------------------------------------------------ partition

def partition(ctx, prog, R):
    base = "<incremental_map::im_rc::PartitionMapi<F> as incremental_map::UnorderedFold<im_rc::ord::map::OrdMap<K, V>, K, V, (im_rc::ord::map::OrdMap<K, A>, im_rc::ord::map::OrdMap<K, B>)>>::"
    EI = "incremental_map::im_rc::Either"
    for m in ("add", "remove", "update"):
        P = ctx.need_fn(R, base + m)
        if P is None:
            continue
        du = DefUse(P)
        syms = [dtab.Sym("side", lambda e: e[0] == "call" and e[1].endswith("call_mut"), dtab.enum_domain(prog, EI))]

        def d(F_, t, du_):
            recv = expr(F_, t.args[0], du_)
            side = "left" if (recv[0] == "field" and recv[2][0] == "0") or "arg2.0" in show(recv) else "right"
            return side + ":" + show(expr(F_, t.args[1], du_))
        acts = [dtab.Action("f", lambda t: q.callee_is(t, "FnMut::call_mut"), _args(1)),
                dtab.Action("insert", lambda t: q.callee_is(t, "OrdMap::insert"), d),
                dtab.Action("remove", lambda t: q.callee_is(t, "OrdMap::remove"), d)]
        tb = dtab.table(P, syms, acts, path_sensitive=True, record_returns=False)
        for (side,), res in sorted(tb.items()):
            got = _seqs(res)
            ctx.site(R, P, "%s(%s) -> %s" % (m, side, sorted(got)))
            ops = [set(a.split("(")[0] + ":" + a.split("(")[1].split(":")[0] for a in s if not a.startswith("f(")) for s in got]
            fcalls = [[a for a in s if a.startswith("f(")] for s in got]
            if m == "add":
                good = all(o == {"insert:" + side.lower()} for o in ops) and all(f == ["f(tuple(arg3, arg4))"] for f in fcalls)
            elif m == "remove":
                good = all(o == {"remove:left", "remove:right"} for o in ops) and all(not f for f in fcalls)
            else:
                other = "right" if side == "Left" else "left"
                good = all(o == {"insert:" + side.lower(), "remove:" + other} for o in ops) and \
                    all(f == ["f(tuple(arg3, arg5))"] for f in fcalls)
            inst = "partition:%s/%s" % (m, side)
            if good and got:
                ctx.ok(R, inst)
            else:
                ctx.fail(R, inst, "PartitionMapi::%s with predicate -> %s does %s: a key must end up in exactly one side, "
                         "computed from the new value" % (m, side, sorted(got)), fn=P)


# ------------------------------------------------------------------------------------------ old (input, output) pair

def _agg_expr(F, st, du):
    rv = st.rv or {}
    if "agg" in rv and isinstance(rv["agg"], dict) and "adt" in rv["agg"]:
        a = rv["agg"]
        return ("agg", a["adt"].rsplit("::", 1)[-1] + "::" + a["variant"], tuple(expr(F, o, du) for o in rv["ops"]))
    return ("?",)


def pdom_pair(ctx, prog, R):
    for name, nin in (("with_old_input_output", 1), ("with_old_input_output2", 2)):
        F = ctx.need_fn(R, WO + name + "::{closure#0}")
        if F is None:
            continue
        du = DefUse(F)
        c = F.cfg()
        fcall = [t for t in F.calls() if q.callee_is(t, "FnMut::call_mut")]
        # `*oi = Some(..)` through an alias of the captured variable, or `old_input = Some(..)` directly
        stores = [s for s in upvar_stores(F, "old_input") if "use" in (s.rv or {}) or "agg" in (s.rv or {})]
        ctx.site(R, F, "f call %s; old_input stores %s" % ([t.bb for t in fcall], [s.bb for s in stores]))
        if len(fcall) != 1 or not stores:
            ctx.fail(R, "pair:%s" % name, "%s: the previous input is never stored: every round looks like an initial "
                     "round (full recomputation)" % name, fn=F)
            continue
        st = stores[0]
        val = expr(F, st.rv["use"], du) if "use" in (st.rv or {}) else expr(F, st.dst, du) if st.dst.is_local() else _agg_expr(F, st, du)
        want_args = [("arg", 3)] if nin == 1 else None
        okv = val[0] == "agg" and val[1] == "Option::Some"
        if okv and nin == 1:
            okv = val[2][0] == ("arg", 3)
        if okv and nin == 2:
            okv = val[2][0][0] == "agg" and val[2][0][1] == "tuple" and len(val[2][0][2]) == 2
        post = c.path(c.succ[fcall[0].bb], c.exits, avoid={st.bb}) is None
        # the old pair handed to f is built from the old output *and* the taken old input
        a0 = expr(F, fcall[0].args[1], du)
        old = a0[2][0] if a0[0] == "agg" and a0[2] else ("?",)
        pair_ok = (old[0] == "call" and old[1].endswith("Option::and_then") and old[2][0] == ("arg", 2)) or \
            (old[0] != "call" and mentions(old, lambda x: x == ("arg", 2)))     # the same pairing written as a `match`
        takes = mentions(old, lambda x: x[0] == "call" and x[1].endswith("Option::take"))
        for cp in closure_paths(old):
            for H in prog.with_closures(prog.fn(cp)):
                if q.calls_in(H, "Option::take"):
                    takes = True
        # new input(s) forwarded
        if okv and post and pair_ok and takes:
            ctx.ok(R, "pair:" + name)
        else:
            ctx.fail(R, "pair:" + name, "%s: old input store ok=%s (value %s), after f on every path=%s, old pair built "
                     "from old output and taken old input=%s/%s" % (name, okv, show(val)[:60], post, pair_ok, takes), fn=F)


# ------------------------------------------------------------------------------------------ per-key operators

PERKEY = {"btree": "incremental_map::btree_map::incr_filter_mapi_generic_btree_map",
          "ordmap": "incremental_map::im_rc::incr_filter_mapi_ordmap"}


def rewire(ctx, prog, R, only=None):
    tables = {}
    for name, path in PERKEY.items():
        G = ctx.need_fn(R, path + "::{closure#2}::{closure#0}")
        if G is None:
            continue
        syms = [dtab.Sym("diff", lambda e: e[0] == "field" and e[1] == ("arg", 3) and e[2] == ("1",), dtab.enum_domain(prog, DE))]

        def recv(F_, t, du_):
            e = expr(F_, t.args[0], du_)
            s = show(e)
            if "result_weak" in s:
                return "result"
            if "acc" in s:
                return "acc"
            if s.startswith("arg2"):
                return "table"
            if "get(arg2" in s or "remove(arg2" in s:
                return "entry"
            if s.startswith("new(") or "watch(new(" in s:
                return "fresh"
            return s[:25]
        names = [
            ("table.get", ("BTreeMap::get", "OrdMap::get")), ("table.remove", ("BTreeMap::remove", "OrdMap::remove")),
            ("table.insert", ("BTreeMap::insert", "OrdMap::insert")),
            ("upgrade", ("WeakNode::upgrade",)), ("make_stale", ("Node::make_stale", "WeakNode::make_stale")),
            ("invalidate", ("Node::invalidate", "WeakNode::invalidate")),
            ("remove_dependency", ("WeakNode::remove_dependency", "Node::remove_dependency")),
            ("node.new", ("expert::public::Node::new", "Node::new")), ("set_cutoff", ("Incr::set_cutoff",)),
            ("add_dependency_with", ("WeakNode::add_dependency_with", "Node::add_dependency_with")),
            ("add_dependency", ("WeakNode::add_dependency", "Node::add_dependency")),
            ("call_fn", ("Operator::call_fn",)),
        ]
        acts = []
        for nm, cal in names:
            acts.append(dtab.Action(nm, (lambda cal_: (lambda t: q.callee_is(t, *cal_) and not (
                cal_[0].endswith("::remove") and "acc" in show(expr(G, t.args[0], DefUse(G)))) ))(cal), recv))
        acts.insert(0, dtab.Action("acc.remove", lambda t: q.callee_is(t, "BTreeMap::remove", "OrdMap::remove") and
                                   "acc" in show(expr(G, t.args[0], DefUse(G))), None))
        tb = dtab.table(G, syms, acts, path_sensitive=True, record_returns=False)
        norm = {}
        for (d,), res in sorted(tb.items()):
            got = _seqs(res)
            norm[d] = got
            ctx.site(R, G, "%s %s -> %s" % (name, d, sorted(got)))
            if only and d not in only:
                continue
            if d == "Unequal":
                want = {("table.get(table)", "upgrade(entry)", "make_stale(upgrade(unwrap(get(arg2, a)"),
                        ("table.get(table)", "upgrade(entry)")}
                # normalise the receiver of make_stale
                got_n = {tuple(a if not a.startswith("make_stale(") else "make_stale(node)" for a in s) for s in got}
                want_n = {("table.get(table)", "upgrade(entry)", "make_stale(node)"), ("table.get(table)", "upgrade(entry)")}
                good = got_n == want_n
                why = "a changed value only makes that key's node stale (if it is still alive); nothing else is touched"
            elif d == "Left":
                got_n = {tuple(a.split("(")[0] for a in s) for s in got}
                want_n = {("table.remove", "upgrade", "remove_dependency", "acc.remove", "invalidate"),
                          ("table.remove", "upgrade", "remove_dependency", "acc.remove")}
                good = got_n == want_n and all("remove_dependency(result)" in s for s in got)
                why = "a removed key: take the entry, remove the dependency *before* invalidating, drop the key from the output"
            else:
                got_n = {tuple(a.split("(")[0] for a in s) for s in got}
                base = ("node.new", "add_dependency", "call_fn", "add_dependency_with", "table.insert")
                want_n = {base, ("node.new", "set_cutoff") + base[1:]}
                good = got_n == want_n and all("add_dependency_with(result)" in s and "add_dependency(fresh)" in s for s in got)
                why = "a new key: fresh input node (optional cutoff), depend on lhs_change, build the user graph, hook it to the result, record the entry"
            inst = "rewire:%s:%s" % (name, d)
            if good:
                ctx.ok(R, inst)
            else:
                ctx.fail(R, inst, "per-key operator (%s), diff element %s: %s; %s" % (name, d, sorted(got), why), fn=G)
        tables[name] = norm
        # *prev_map = map.clone() after the fold; result depends on lhs_change
        C2 = prog.fn(path + "::{closure#2}")
        if C2 is not None and (not only):
            du = DefUse(C2)
            c = C2.cfg()
            fold = [t for t in C2.calls() if q.callee_is(t, "SymmetricFoldMap<K, V>>::symmetric_fold", "symmetric_fold")]
            stores = [s for s in C2.stmts() if s.dst is not None and s.dst.proj == ["deref"] and not C2.is_cleanup(s.bb)
                      and "prev_map" in show(expr(C2, Place({"local": s.dst.local, "proj": []}), du))]
            ctx.site(R, C2, "%s fold %s; prev_map stores %s" % (name, [t.bb for t in fold], [s.bb for s in stores]))
            good = False
            if fold and stores:
                v = expr(C2, stores[0].rv["use"], du) if "use" in (stores[0].rv or {}) else ("?",)
                fa = [show(expr(C2, a, du)) for a in fold[0].args[:3]]
                good = v == ("arg", 3) and c.path(c.succ[fold[0].bb], c.exits, avoid={stores[0].bb}) is None and \
                    "prev_map" in fa[0] and fa[1] == "arg3" and "prev_nodes" in fa[2]
            if good:
                ctx.ok(R, "rewire:%s:prev_map" % name)
            else:
                ctx.fail(R, "rewire:%s:prev_map" % name, "the per-key operator does not diff (previous map, new map) over "
                         "the node table and store the new map afterwards", fn=C2)
        P = prog.fn(path)
        if P is not None and (not only):
            du = DefUse(P)
            deps = [t for t in P.calls() if q.callee_is(t, "Node::add_dependency")]
            good = any(mentions(expr(P, t.args[1], du), lambda x: x[0] == "call" and x[1].endswith("map_cyclic")) for t in deps)
            if good:
                ctx.ok(R, "rewire:%s:result-depends" % name)
            else:
                ctx.fail(R, "rewire:%s:result-depends" % name, "the result node does not depend on the lhs_change node", fn=P)
    if len(tables) == 2 and not only:
        ren = lambda t: {k: {tuple(x.replace("BTreeMap", "Map").replace("OrdMap", "Map") for x in s) for s in v} for k, v in t.items()}
        if ren(tables["btree"]) == ren(tables["ordmap"]):
            ctx.ok(R, "rewire:siblings-agree")
        else:
            ctx.fail(R, "rewire:siblings-agree", "the BTreeMap and OrdMap per-key operators differ",
                     fn=prog.fn(PERKEY["ordmap"] + "::{closure#2}::{closure#0}"))
    # on_inner_change keeps the output map in step: None -> remove(key), Some(x) -> insert(key, x)
    if not only:
        for name, path in PERKEY.items():
            H = prog.fn(path + "::{closure#1}")
            if H is None:
                ctx.missing(R, "on_inner_change of " + name)
                continue
            syms = [dtab.Sym("opt", lambda e: e[0] == "call" and e[1].endswith("Operator::as_opt"), {0: "None", 1: "Some"})]
            acts = [dtab.Action("remove", lambda t: t.callee and t.callee.endswith("::remove"), _args(1)),
                    dtab.Action("insert", lambda t: t.callee and t.callee.endswith("::insert"), _args(1, 2))]
            tb = dtab.table(H, syms, acts, path_sensitive=True, record_returns=False)
            want = {"None": {("remove(arg2)",)}, "Some": {("insert(arg2,as_opt(arg3).0)",)}}
            for (o,), res in sorted(tb.items()):
                got = _seqs(res)
                ctx.site(R, H, "%s on_inner_change(%s) -> %s" % (name, o, sorted(got)))
                if got == want[o]:
                    ctx.ok(R, "inner:%s:%s" % (name, o))
                else:
                    ctx.fail(R, "inner:%s:%s" % (name, o), "on_inner_change(%s) does %s, specified %s" % (o, sorted(got), sorted(want[o])), fn=H)


# ------------------------------------------------------------------------------------------ C17 helpers

def user_fn_sites(ctx, prog, R):
    """User functions of the diff-based operators are called only in the diff callback or in the guarded full pass."""
    allowed = {
        IM + "incr_filter_mapi::{closure#0}::{closure#0}": "diff callback",
        IM + "incr_map::{closure#0}": "adapter closure handed to incr_filter_mapi",
        IM + "incr_mapi::{closure#0}": "adapter", IM + "incr_filter_map::{closure#0}": "adapter",
    }
    n = 0
    from .usercalls import user_calls
    for u in user_calls(prog):
        F = u.site.fn
        if F.crate != "incremental_map":
            continue
        n += 1
        ctx.site(R, F, "bb%d calls %s" % (u.site.bb, u.recv_ty[:40]))
    return n
