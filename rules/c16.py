"""C16 — incremental-map per-key graph operators (structural clauses)."""
from . import mapops

EXPLANATION = (
    "Decided clause of C16: per diff element the per-key operator (incr_(filter_)mapi_ on BTreeMap and OrdMap) "
    "performs the specified rewiring in the specified order: Unequal -> make_stale on that key's node only (if "
    "still alive); Left -> take the entry, remove_dependency on the result BEFORE invalidating the per-key node, "
    "remove the key from the output; Right -> fresh input node, optional cutoff, dependency on lhs_change, user "
    "graph built by call_fn, add_dependency_with(result, on_inner_change), entry recorded; the new map is stored "
    "as previous map after the fold; the result depends on lhs_change; on_inner_change maps None -> remove, "
    "Some -> insert; weakly held per-key nodes are never unwrapped (WEAK, shared with C04); both map types agree.")
NOT_DECIDED = "Equality of the output with the per-entry computation over all histories (depends on C14 and C01)."
ASSUMPTIONS = ["C14 (expert nodes) and C18 (diff) hold"]


def rewire(ctx, prog):
    R = "C16.DTAB-rewire"
    ctx.rule(R, "per-key operator rewiring table, both implementations, siblings agree")
    mapops.rewire(ctx, prog, R)


def weak_prev_nodes(ctx, prog):
    from .c04 import weak_map
    weak_map(ctx, prog, "C16.WEAK-prev-nodes")


for _f, _id in ((rewire, "C16.DTAB-rewire"), (weak_prev_nodes, "C16.WEAK-prev-nodes")):
    _f.rule_id = _id

def link_callback(ctx, prog):
    """add_dependency_with(result, on_inner_change) only fills the output if the edge callback of a freshly
    linked child is delivered (C14.PDOM-link-callback); reported here because the per-key operators are its
    only in-tree user."""
    from .engine import run_relabelled
    from .c14 import pdom_link_callback
    run_relabelled(ctx, prog, pdom_link_callback, "C14.PDOM-link-callback", "C16.PDOM-link-callback")


link_callback.rule_id = "C16.PDOM-link-callback"

def sched(ctx, prog):
    """Unequal -> make_stale(per-key node), Right -> add_dependency, Left -> remove_dependency: each must leave
    its staleness mark whether or not the node is necessary at that moment (C14.PDOM-sched, reported here too)."""
    from .c14 import pdom_sched
    pdom_sched(ctx, prog, "C16.PDOM-sched")


sched.rule_id = "C16.PDOM-sched"

def pdom_notify(ctx, prog):
    R = "C16.PDOM-notify"
    ctx.rule(R, "a changed per-key node delivers child_changed to every live parent (queued or not): the result node of "
                "the per-key operators writes the key's new value from that notification")
    from .shared import every_parent_notified
    every_parent_notified(ctx, prog, R)


pdom_notify.rule_id = "C16.PDOM-notify"

def data_swap(ctx, prog):
    """Removing a key removes a non-last edge of the result node by swapping it with the last: the four index stores
    of the swap form a permutation (C14.DATA-swap, reported here too)."""
    from .engine import run_relabelled
    from .c14 import data_swap as f
    run_relabelled(ctx, prog, f, "C14.DATA-swap", "C16.DATA-swap")


data_swap.rule_id = "C16.DATA-swap"

RULES = [rewire, weak_prev_nodes, link_callback, sched, pdom_notify, data_swap]

# control signature of the bookkeeping effects this property depends on (rules/ctrlsig.py)
from .ctrlsig import make_rule as _ctrl_rule  # noqa: E402
RULES.append(_ctrl_rule("C16"))
