"""C08 — var writes apply in program order; writes during stabilise defer (structural clauses)."""
from . import q, dtab
from .cfg import DefUse, origins
from .colls import coll_ops
from .effects import accesses_of, writes_of, resolve_fields
from .expr import expr, show, mentions, closure_paths

EXPLANATION = (
    "Decided clause of C08: (SIB-writes) set / update / modify / replace_with have the same per-status behaviour, "
    "extracted as a decision table over (status, pending slot): outside Stabilising the value cell is written and "
    "did_set_var_while_not_stabilising follows; while Stabilising the value cell is never borrowed mutably, the "
    "pending slot is written, and the var is queued exactly when the slot was empty; (GUARD-value) no other "
    "function borrows Var.value mutably except set_var_while_not_stabilising, reached only from the guarded arm "
    "of set and from stabilise_end; (DOM-end) stabilise_end bumps stabilisation_num before applying deferred "
    "writes and applies them before dead vars are torn down; (DTAB-stable) is_stable is the conjunction of the "
    "three queues being empty; replace delegates to replace_with.")
NOT_DECIDED = "Composition of the written values and what each reader saw (runtime values)."
ASSUMPTIONS = ["specification table B.4 of DESIGN.md"]

STATUS = "incremental::state::IncrStatus"
V_VALUE = "incremental::var::Var.value"
V_SLOT = "incremental::var::Var.value_set_during_stabilisation"
WRITERS = ("set", "update", "modify", "replace_with")


def _acts(prog, F):
    def on_field(t, field, kinds):
        if not q.callee_is(t, *kinds):
            return False
        p = t.arg_place(0)
        return p is not None and any(f == field for f in resolve_fields(prog, F, p))
    push = lambda t: any(o.site is t and o.sign == "+" and any(f.endswith("State.set_during_stabilisation") for f in o.fields)
                         for o in coll_ops(prog, F))
    return [
        dtab.Action("value.borrow_mut", lambda t: on_field(t, V_VALUE, ("RefCell::borrow_mut", "RefCell::replace", "RefCell::take", "RefCell::swap"))),
        dtab.Action("value.borrow", lambda t: on_field(t, V_VALUE, ("RefCell::borrow",))),
        dtab.Action("slot.borrow_mut", lambda t: on_field(t, V_SLOT, ("RefCell::borrow_mut", "RefCell::replace"))),
        dtab.Action("queue.push", push),
        dtab.Action("did_set", lambda t: q.callee_is(t, "did_set_var_while_not_stabilising", "set_var_while_not_stabilising")),
    ]


def sib_writes(ctx, prog):
    R = "C08.SIB-writes"
    ctx.rule(R, "per (status, pending slot) every write operation behaves as table B.4")
    slot_sym = dtab.Sym("slot", lambda e: (e[0] == "call" and e[1].endswith("RefCell::borrow_mut") and
                                           mentions(e, lambda x: x[0] == "field" and x[2][-1] == "value_set_during_stabilisation")),
                        {0: "empty", 1: "full"})
    slot_none = dtab.Sym("slot", lambda e: e[0] == "call" and e[1].endswith("Option::is_none") and
                         mentions(e, lambda x: x[0] == "field" and x[2][-1] == "value_set_during_stabilisation"),
                         {1: "empty", 0: "full"}, "bool")
    n = 0
    for w in WRITERS:
        F = ctx.need_fn(R, q.VAR + w)
        if F is None:
            continue
        status = dtab.Sym("status", dtab.is_field_get("status"), dtab.enum_domain(prog, STATUS))
        # the slot is tested either through the Option discriminant or through is_none()
        du = DefUse(F)
        uses_is_none = any(b["term"]["k"] == "switch" and slot_none.match(expr(F, b["term"]["on"], du)) for b in F.blocks)
        syms = [status, slot_none if uses_is_none else slot_sym]
        tb = dtab.table(F, syms, _acts(prog, F), record_returns=False)
        for (st, slot), res in sorted(tb.items()):
            n += 1
            acts = sorted({tuple(a[0] for a in r if a[0] != "diverge") for r in res})
            ctx.site(R, F, "(%s,%s) -> %s" % (st, slot, acts))
            inst = "%s:%s/%s" % (w, st, slot)
            if st != "Stabilising":
                good = all(("value.borrow_mut" in a or w == "set") and "did_set" in a and "queue.push" not in a
                           and "slot.borrow_mut" not in a and a[-1] == "did_set" for a in acts) and acts
                why = "outside stabilise the value must be written now and the watch node scheduled"
            else:
                good = bool(acts)
                for a in acts:
                    if "value.borrow_mut" in a or "did_set" in a or "slot.borrow_mut" not in a:
                        good = False
                    if slot == "empty" and a.count("queue.push") != 1:
                        good = False
                    if slot == "full" and "queue.push" in a:
                        good = False
                why = ("while Stabilising the value cell must stay untouched, the pending slot written, and the var "
                       "queued exactly when the slot was empty")
            if good:
                ctx.ok(R, inst)
            else:
                ctx.fail(R, inst, "Var::%s in (%s, slot %s) performs %s; %s" % (w, st, slot, acts, why), fn=F)
    ctx.floor(R, n, 24)
    # replace delegates
    P = ctx.need_fn(R, "incremental::public::Var::<T>::replace")
    if P is not None:
        cs = q.calls_in(P, "Var::replace_with")
        ctx.site(R, P, "delegates to replace_with: %d" % len(cs))
        if cs:
            ctx.ok(R, "replace:delegates")
        else:
            ctx.fail(R, "replace:delegates", "Var::replace no longer delegates to replace_with", fn=P)
    for w in ("set", "update", "modify", "replace_with"):
        P = prog.fn("incremental::public::Var::<T>::" + w)
        if P is None:
            ctx.missing(R, "public Var::" + w)
            continue
        if q.calls_in(P, "var::Var::" + w):
            ctx.ok(R, "public:" + w)
        else:
            ctx.fail(R, "public:" + w, "public Var::%s does not delegate to the internal var" % w, fn=P)


def _arg_fields(F, t, du):
    from .cfg import origins
    out = []
    for o in origins(F, t.arg_place(0), du):
        out += [f for f in (o.fields or [])]
    return out


def guard_value(ctx, prog, R="C08.GUARD-value"):
    ctx.rule(R, "Var.value is borrowed mutably only in set/update/modify/replace_with (non-Stabilising arms, "
                "checked by SIB-writes) and in set_var_while_not_stabilising <- {set, set_var_stabilise_end <- "
                "stabilise_end}")
    allowed = {q.VAR + w for w in WRITERS} | {q.VAR + "set_var_while_not_stabilising"}
    ws = writes_of(prog, V_VALUE)
    for a in ws:
        ctx.site(R, a.fn, "bb%d value %s" % (a.bb, a.kind))
        if a.fn.root not in allowed:
            ctx.fail(R, "writer:" + a.fn.short, "Var.value is mutated in %s" % a.fn.short, fn=a.fn, span=a.span)
        else:
            ctx.ok(R, "writer:" + a.fn.short)
    ctx.floor(R, len(ws), 4)
    S = ctx.need_fn(R, q.VAR + "set_var_while_not_stabilising")
    if S is not None:
        for t in prog.callers(S):
            ctx.site(R, t.fn, "bb%d call set_var_while_not_stabilising" % t.bb)
            if t.fn.path == q.VAR + "set":
                ctx.ok(R, "caller:set")       # arm checked by the decision table
            elif t.fn.path == q.VAR_IMPL + "set_var_stabilise_end":
                ctx.ok(R, "caller:set_var_stabilise_end")
            else:
                ctx.fail(R, "caller:" + t.fn.short, "set_var_while_not_stabilising called from %s" % t.fn.short, fn=t.fn,
                         span=t.span)
    E = ctx.need_fn(R, q.VAR_IMPL + "set_var_stabilise_end")
    if E is not None:
        cs = prog.callers(E)
        if not cs:
            ctx.missing(R, "caller of set_var_stabilise_end")
        for t in cs:
            ctx.site(R, t.fn, "bb%d call set_var_stabilise_end" % t.bb)
            if t.fn.root != q.STATE + "stabilise_end":
                ctx.fail(R, "caller2:" + t.fn.short, "deferred writes applied outside stabilise_end", fn=t.fn, span=t.span)
            else:
                ctx.ok(R, "caller2:stabilise_end")
        # it takes the pending slot and applies it
        du = DefUse(E)
        takes = [a for a in writes_of(prog, V_SLOT) if a.fn.path == E.path]
        app = q.calls_in(E, "set_var_while_not_stabilising")
        if takes and app:
            ctx.ok(R, "apply:slot")
        else:
            ctx.fail(R, "apply:slot", "set_var_stabilise_end does not take the pending slot and apply it", fn=E)
        # ... on every path on which the slot was full: the only excuse for not applying is `take() == None`
        if app:
            c = E.cfg()
            ex = set()
            for b in E.blocks:
                t = b["term"]
                if t["k"] == "switch":
                    e = expr(E, t["on"], du)
                    if e[0] == "discr" and e[1][0] == "call" and e[1][1].endswith("Option::take") and mentions(
                            e[1], lambda x: x[0] == "field" and x[2][-1] == "value_set_during_stabilisation"):
                        for x in c.succ[b["id"]]:
                            if 1 not in c.edge_values(b["id"], x):
                                ex.add((b["id"], x))
            pth = c.path([0], c.exits, avoid={t.bb for t in app}, avoid_edges=ex)
            v = expr(E, app[0].args[1], du)
            from_slot = mentions(v, lambda x: x[0] == "call" and x[1].endswith("Option::take"))
            if pth is not None:
                ctx.fail(R, "apply:always", "a pending write can be dropped: a path through set_var_stabilise_end returns "
                         "without applying a full slot (e.g. because the new value compares equal - the var's own cutoff, "
                         "not the var cell, decides whether an equal write propagates)", fn=E, path=q.fmt_path(E, pth))
            elif not from_slot:
                ctx.fail(R, "apply:always", "the value applied is not the one taken from the pending slot", fn=E)
            else:
                ctx.ok(R, "apply:always")
    # did_set_var_while_not_stabilising stamps set_at with the current stabilisation number under set_at < now
    D = ctx.need_fn(R, q.VAR + "did_set_var_while_not_stabilising")
    if D is not None:
        du = DefUse(D)
        ws2 = [a for a in writes_of(prog, "incremental::var::Var.set_at") if a.fn.path == D.path]
        good = False
        for a in ws2:
            e = expr(D, a.site.args[1], du)
            if mentions(e, lambda x: x[0] == "field" and x[2][-1] == "stabilisation_num"):
                good = True
        if good:
            ctx.ok(R, "set_at")
        else:
            ctx.fail(R, "set_at", "set_at is not stamped with the current stabilisation number", fn=D)
        # decision table: the stamp depends on `set_at < now` only; necessity gates the heap insertion, not the stamp
        # (a write to a var whose watch node is currently unnecessary must still make the node stale)
        syms = [dtab.Sym("older", lambda e: e[0] == "call" and e[1].endswith("::lt") and mentions(
                    e, lambda x: x[0] == "field" and x[2][-1] == "set_at"), {0: "no", 1: "yes"}, kind="bool"),
                dtab.Sym("necessary", lambda e: e[0] == "call" and e[1].endswith("is_necessary"), {0: "no", 1: "yes"}, kind="bool"),
                dtab.Sym("queued", lambda e: e[0] == "call" and e[1].endswith("is_in_recompute_heap"), {0: "no", 1: "yes"}, kind="bool")]
        acts = [dtab.Action("stamp", lambda t: q.callee_is(t, "core::cell::Cell::set") and t.arg_place(0) is not None and
                            any(f.endswith("Var.set_at") for f in _arg_fields(D, t, du))),
                dtab.Action("insert", lambda t: q.callee_is(t, "RecomputeHeap::insert"))]
        tb = dtab.table(D, syms, acts, path_sensitive=True)
        for (older, nec, queued), res in sorted(tb.items()):
            got = set()
            for x in dtab.summarize(res):
                got |= {a.strip() for a in x.split(";") if a.strip() in ("stamp", "insert")} if "diverge" not in x else set()
            want = set()
            if older == "yes":
                want.add("stamp")
                if nec == "yes" and queued == "no":
                    want.add("insert")
            ctx.site(R, D, "(older=%s,necessary=%s,queued=%s) -> %s" % (older, nec, queued, sorted(got)))
            inst = "did-set:%s/%s/%s" % (older, nec, queued)
            if got == want:
                ctx.ok(R, inst)
            else:
                ctx.fail(R, inst, "did_set_var_while_not_stabilising with (set_at<now=%s, watch necessary=%s, queued=%s) "
                         "does %s, specified %s: a write to a var nobody currently observes must still stamp set_at, "
                         "otherwise the write is lost when the var is observed again"
                         % (older, nec, queued, sorted(got), sorted(want)), fn=D)
        ctx.floor(R, len(tb), 8)


def dom_end(ctx, prog):
    R = "C08.DOM-end"
    ctx.rule(R, "stabilise_end: stabilisation_num := add1 dominates the deferred-write loop, which dominates the "
                "dead-var teardown; status returns to NotStabilising last")
    F = ctx.need_fn(R, q.STATE + "stabilise_end")
    if F is None:
        return
    du = DefUse(F)
    c = F.cfg()
    bump = [a for a in writes_of(prog, "incremental::state::State.stabilisation_num") if a.fn.path == F.path]

    def phase_block(callee):
        """block of stabilise_end in which the closure containing `callee` is invoked"""
        for G in prog.closures_of(F, recursive=False):
            inner = any(q.calls_in(H, callee) for H in prog.with_closures(G))
            if not inner:
                continue
            for t in F.calls():
                for a in t.args:
                    if G.path in closure_paths(expr(F, a, du)):
                        return t.bb
        ts = q.calls_in(F, callee)
        return ts[0].bb if ts else None
    b_apply = phase_block("set_var_stabilise_end")
    b_dead = phase_block("break_rc_cycle")
    ctx.site(R, F, "bump %s apply bb%s teardown bb%s" % ([a.bb for a in bump], b_apply, b_dead))
    if len(bump) != 1 or b_apply is None or b_dead is None:
        ctx.fail(R, "shape", "stabilise_end: expected one stabilisation_num store, the deferred-write phase and the "
                 "dead-var phase", fn=F, kind="anchor")
        return
    e = expr(F, bump[0].site.args[1], du)
    if not (e[0] == "call" and e[1].endswith("add1") and mentions(e, lambda x: x[0] == "field" and x[2][-1] == "stabilisation_num")):
        ctx.fail(R, "bump:value", "stabilisation_num is set to %s, expected stabilisation_num.add1()" % show(e), fn=F)
    if c.dominates(bump[0].bb, b_apply) and bump[0].bb != b_apply:
        ctx.ok(R, "bump-before-apply")
    else:
        ctx.fail(R, "bump-before-apply", "deferred var writes are applied before stabilisation_num is bumped: "
                 "set_at < stabilisation_num is false, the watch node is never scheduled and the write is lost", fn=F)
    if c.dominates(b_apply, b_dead) and b_apply != b_dead:
        ctx.ok(R, "apply-before-teardown")
    else:
        ctx.fail(R, "apply-before-teardown", "dead vars are torn down before their deferred writes are applied", fn=F)
    # update handlers run after the deferred writes of this stabilise are applied: a handler reads / composes on /
    # overrides the value the node functions left behind, never the pre-stabilise one
    b_handlers = phase_block("run_on_update_handlers")
    ctx.site(R, F, "handler phase bb%s" % b_handlers)
    if b_handlers is None:
        ctx.missing(R, "handler phase (run_on_update_handlers) in stabilise_end")
    elif c.dominates(b_apply, b_handlers) and b_apply != b_handlers:
        ctx.ok(R, "apply-before-handlers")
    else:
        ctx.fail(R, "apply-before-handlers", "update handlers run before the deferred var writes of the stabilise are "
                 "applied: a handler sees the pre-stabilise value and its own write is overwritten by the older deferred "
                 "one (program order inverted)", fn=F)
    # bumps of stabilisation_num elsewhere
    for a in writes_of(prog, "incremental::state::State.stabilisation_num"):
        ctx.site(R, a.fn, "bb%d stabilisation_num %s" % (a.bb, a.kind))
        if a.fn.path != F.path:
            ctx.fail(R, "bump-writer:" + a.fn.short, "stabilisation_num written outside stabilise_end", fn=a.fn, span=a.span)


def dtab_stable(ctx, prog):
    R = "C08.DTAB-stable"
    ctx.rule(R, "is_stable == recompute_heap.is_empty() && dead_vars.is_empty() && new_observers.is_empty()")
    F = ctx.need_fn(R, q.STATE + "is_stable")
    if F is None:
        return
    du = DefUse(F)

    def em(field):
        return lambda e: e[0] == "call" and e[1].endswith("is_empty") and mentions(
            e, lambda x: x[0] == "field" and x[2][-1] == field)
    fields = ["recompute_heap", "dead_vars", "new_observers"]
    # each queue is consulted either by a branch or as the returned value
    seen = {}
    for f in fields:
        seen[f] = any(mentions(expr(F, t.args[0], du), lambda x: x[0] == "field" and x[2][-1] == f)
                      for t in F.calls() if q.callee_is(t, "is_empty") and t.args)
        ctx.site(R, F, "consults %s: %s" % (f, seen[f]))
    syms = [dtab.Sym(f, em(f), {0: "nonempty", 1: "empty"}, "bool") for f in fields]
    used = [s for s in syms if any(b["term"]["k"] == "switch" and s.match(expr(F, b["term"]["on"], du)) for b in F.blocks)]
    tb = dtab.table(F, used, [])
    good = all(seen.values())
    for labels, res in tb.items():
        got = dtab.summarize(res)
        if "nonempty" in labels:
            if got != ["ret(0)"]:
                good = False
        else:
            # all tested queues empty: the result is true or the remaining is_empty() call
            if not (len(got) == 1 and (got[0] == "ret(1)" or got[0].startswith("ret(call ") and "is_empty" in got[0])):
                good = False
    if good and len(used) >= 2:
        ctx.ok(R, "conjunction")
    else:
        ctx.fail(R, "conjunction", "is_stable is no longer the conjunction of the three queues being empty (%s)"
                 % {k: dtab.summarize(v) for k, v in tb.items()}, fn=F)


for _f, _id in ((sib_writes, "C08.SIB-writes"), (guard_value, "C08.GUARD-value"), (dom_end, "C08.DOM-end"),
                (dtab_stable, "C08.DTAB-stable")):
    _f.rule_id = _id

def dom_status_first(ctx, prog):
    """Writes issued from a callback that runs while observers are linked / unlinked must be deferred too: the
    status is Stabilising before anything user-reaching runs (shared with C07)."""
    from .c07 import dom_status_first as f
    f(ctx, prog, "C08.DOM-status-first")


dom_status_first.rule_id = "C08.DOM-status-first"

RULES = [sib_writes, guard_value, dom_end, dtab_stable, dom_status_first]

# control signature of the bookkeeping effects this property depends on (rules/ctrlsig.py)
from .ctrlsig import make_rule as _ctrl_rule  # noqa: E402
RULES.append(_ctrl_rule("C08"))
