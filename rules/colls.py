"""Collection mutation sites (Vec / VecDeque / HashMap / SmallVec ...) with the direction of the
size change and, where it can be resolved, the field the collection lives in."""
from .cfg import DefUse
from .effects import resolve_fields
from .facts import strip_generics

# method suffix -> sign
COLL_METHODS = {
    "alloc::vec::Vec::push": "+",
    "alloc::vec::Vec::insert": "+",
    "alloc::vec::Vec::extend": "+",
    "<alloc::vec::Vec<T, A> as core::iter::traits::collect::Extend<T>>::extend": "+",
    "<alloc::vec::Vec<T, A> as core::iter::traits::collect::Extend<&'a T>>::extend": "+",
    "<alloc::collections::vec_deque::VecDeque<T, A> as core::iter::traits::collect::Extend<T>>::extend": "+",
    "<smallvec::SmallVec<A> as core::iter::traits::collect::Extend<<A as smallvec::Array>::Item>>::extend": "+",
    "alloc::vec::Vec::pop": "-",
    "alloc::vec::Vec::remove": "-",
    "alloc::vec::Vec::swap_remove": "-",
    "alloc::vec::Vec::drain": "clear",
    "alloc::vec::Vec::clear": "clear",
    "alloc::vec::Vec::truncate": "-",
    "alloc::vec::Vec::resize": "resize",
    "alloc::vec::Vec::retain": "-",
    "alloc::collections::vec_deque::VecDeque::push_back": "+",
    "alloc::collections::vec_deque::VecDeque::push_front": "+",
    "alloc::collections::vec_deque::VecDeque::pop_front": "-",
    "alloc::collections::vec_deque::VecDeque::pop_back": "-",
    "alloc::collections::vec_deque::VecDeque::swap_remove_back": "-",
    "alloc::collections::vec_deque::VecDeque::swap_remove_front": "-",
    "alloc::collections::vec_deque::VecDeque::remove": "-",
    "alloc::collections::vec_deque::VecDeque::clear": "clear",
    "alloc::collections::vec_deque::VecDeque::drain": "clear",
    "std::collections::hash::map::HashMap::insert": "+",
    "std::collections::hash::map::HashMap::remove": "-",
    "std::collections::hash::map::HashMap::clear": "clear",
    "std::collections::hash::map::HashMap::retain": "-",
    "std::collections::hash::map::HashMap::drain": "clear",
    "smallvec::SmallVec::push": "+",
    "smallvec::SmallVec::pop": "-",
    "smallvec::SmallVec::swap_remove": "-",
    "smallvec::SmallVec::remove": "-",
    "smallvec::SmallVec::clear": "clear",
    "alloc::collections::btree::map::BTreeMap::insert": "+",
    "alloc::collections::btree::map::BTreeMap::remove": "-",
    "im_rc::ord::map::OrdMap::insert": "+",
    "im_rc::ord::map::OrdMap::remove": "-",
}


class CollOp:
    __slots__ = ("fn", "bb", "method", "sign", "fields", "recv_ty", "site")

    def __init__(self, fn, bb, method, sign, fields, recv_ty, site):
        self.fn, self.bb, self.method, self.sign = fn, bb, method, sign
        self.fields, self.recv_ty, self.site = fields, recv_ty, site

    @property
    def span(self):
        return self.site.span

    def __repr__(self):
        return "%s bb%d %s[%s] on %s (%s)" % (self.fn.short, self.bb, self.method.rsplit("::", 1)[-1],
                                              self.sign, ",".join(sorted(self.fields)) or "?", self.recv_ty)


def coll_ops(prog, F):
    cache = prog.__dict__.setdefault("_coll_cache", {})
    if F.path in cache:
        return cache[F.path]
    out = []
    du = None
    for t in F.calls():
        c = t.callee
        if not c:
            continue
        m = strip_generics(c)
        sign = COLL_METHODS.get(m)
        if sign is None:
            continue
        p = t.arg_place(0)
        if p is None:
            continue
        du = du or DefUse(F)
        fields = resolve_fields(prog, F, p, du)
        out.append(CollOp(F, t.bb, m, sign, fields, F.local_ty(p.local), t))
    cache[F.path] = out
    return out
