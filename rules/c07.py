"""C07 — observer values move only at stabilise boundaries (structural clauses)."""
from . import q, dtab
from .callgraph import reachable, path_between
from .cfg import DefUse
from .effects import writes_of
from .expr import expr, show, mentions

EXPLANATION = (
    "Decided clause of C07: (GUARD-read) InternalObserver::try_get_value returns Err(CurrentlyStabilising) while "
    "status is Stabilising, Err(ObservingInvalid) when the state is gone, and reaches value_inner only for "
    "NotStabilising / RunningOnUpdateHandlers; value_inner has no other caller; (WMW-value) Node.value_opt is "
    "written only by recompute_one / maybe_change_value / invalidate_node and none of these is reachable from "
    "the public API that may be used between stabilises (var writes, node construction, observe, subscribe, "
    "handle drops); (WMW-inuse) an observer becomes InUse only in add_new_observers, reached only from "
    "stabilise_start; observe() only queues; (TYG) try_get_value hands out T by value.")
NOT_DECIDED = "Single-snapshot consistency of all observers (follows from C01 + C08, not decided here)."
ASSUMPTIONS = ["user closures are not call-graph edges: a user function cannot reach engine internals except through "
               "the public API, whose status guards are checked by C08/C13"]

STATUS = "incremental::state::IncrStatus"
OBS_STATE = "incremental::internal_observer::ObserverState"


def guard_read(ctx, prog, R="C07.GUARD-read"):
    ctx.rule(R, "try_get_value: state gone -> Err(ObservingInvalid); Stabilising -> Err(CurrentlyStabilising); "
                "otherwise value_inner; value_inner is called only from try_get_value")
    F = ctx.need_fn(R, q.OBS + "try_get_value")
    if F is None:
        return
    syms = [dtab.Sym("state", lambda e: e[0] == "call" and e[1].endswith("incr_state"), {0: "gone", 1: "alive"}),
            dtab.Sym("status", dtab.is_field_get("status"), dtab.enum_domain(prog, STATUS))]
    acts = [dtab.Action("value_inner", lambda t: q.callee_is(t, "InternalObserver::value_inner"))]
    tb = dtab.table(F, syms, acts, path_sensitive=True)
    for (st, status), res in sorted(tb.items()):
        got = dtab.summarize(res)
        ctx.site(R, F, "(%s,%s) -> %s" % (st, status, got))
        if st == "gone":
            want = ["ret(Result::Err(ObserverError::ObservingInvalid()))"]
        elif status == "Stabilising":
            want = ["ret(Result::Err(ObserverError::CurrentlyStabilising()))"]
        else:
            want = None
        inst = "cell:%s/%s" % (st, status)
        if want is not None:
            if got == want:
                ctx.ok(R, inst)
            else:
                ctx.fail(R, inst, "try_get_value(%s,%s) gives %s, specified %s: a half-updated value could be read "
                         "from inside a node function" % (st, status, got, want), fn=F)
        else:
            if len(got) == 1 and got[0].startswith("value_inner") and "Err" not in got[0]:
                ctx.ok(R, inst)
            else:
                ctx.fail(R, inst, "try_get_value(%s,%s) gives %s, specified a call of value_inner" % (st, status, got), fn=F)
    VI = ctx.need_fn(R, q.OBS + "value_inner")
    if VI is not None:
        for t in prog.callers(VI):
            ctx.site(R, t.fn, "bb%d call value_inner" % t.bb)
            if q.strip_generics(t.fn.path) != q.strip_generics(q.OBS + "try_get_value"):
                ctx.fail(R, "caller:" + t.fn.short, "value_inner is called without the status check", fn=t.fn, span=t.span)
            else:
                ctx.ok(R, "caller:try_get_value")
    # the public observer goes through try_get_value
    for name in ("try_get_value", "value"):
        P = prog.fn("incremental::public::Observer::<T>::" + name)
        if P is None:
            ctx.missing(R, "Observer::" + name)
            continue
        cs = q.calls_in(P, "InternalObserver::try_get_value")
        direct = q.calls_in(P, "value_inner", "Incremental::value_opt", "Incremental::latest", "value_as_ref")
        ctx.site(R, P, "calls try_get_value %d, direct reads %d" % (len(cs), len(direct)))
        if cs and not direct:
            ctx.ok(R, "public:" + name)
        else:
            ctx.fail(R, "public:" + name, "Observer::%s does not go through the status-checked read" % name, fn=P)


NODE_VALUE = "incremental::node::Node.value_opt"
BETWEEN_STABILISES = (
    r"^incremental::public::Var::<T>::(set|update|modify|replace|replace_with|get|watch)$",
    r"^<incremental::public::Var<T> as core::ops::drop::Drop>::drop$",
    r"^<incremental::public::Observer<T> as core::ops::drop::Drop>::drop$",
    r"^incremental::public::Observer::<T>::(try_subscribe|subscribe|unsubscribe|disallow_future_use|try_get_value|value)$",
    r"^incremental::public::(IncrState|WeakState)::(var|var_current_scope|constant|fold|unsubscribe|is_stable|within_scope|weak_memoize_fn|set_max_height_allowed)$",
    r"^incremental::incr::Incr::<T>::(map_ref|map_cyclic|map_with_old|bind|binds|observe|set_cutoff|set_cutoff_fn|set_cutoff_fn_boxed|depend_on|on_update|zip|enumerate)$",
    r"^incremental::kind::map::<impl incremental::incr::Incr<T1>>::map[2-6]?$",
    r"^incremental::kind::expert::public::Node::<T>::(new|new_|new_cyclic|new_cyclic_|watch|weak)$",
)


def wmw_value(ctx, prog):
    R = "C07.WMW-value"
    ctx.rule(R, "Node.value_opt is written only in recompute_one / maybe_change_value / invalidate_node, and no "
                "such write is reachable from the API usable between stabilises")
    allowed = {q.NODE_IMPL + "recompute_one", q.NODE + "maybe_change_value", q.NODE_IMPL + "invalidate_node"}
    ws = writes_of(prog, NODE_VALUE)
    writers = set()
    for a in ws:
        ctx.site(R, a.fn, "bb%d value_opt %s" % (a.bb, a.kind))
        writers.add(a.fn.root)
        if a.fn.root not in allowed:
            ctx.fail(R, "writer:" + a.fn.short, "Node.value_opt written in %s" % a.fn.short, fn=a.fn, span=a.span)
        else:
            ctx.ok(R, "writer:" + a.fn.short)
    ctx.floor(R, len(ws), 5)
    import re
    entries = []
    for pat in BETWEEN_STABILISES:
        r = re.compile(pat)
        hit = [p for p in prog.fns if r.search(p)]
        if not hit:
            ctx.missing(R, "public entry points matching " + pat)
        entries += hit
    n = 0
    for e in sorted(set(entries)):
        n += 1
        ctx.site(R, e, "entry")
        p = path_between(prog, [e], writers)
        if p is not None:
            ctx.fail(R, "reach:" + prog.fns[e].short, "a write of Node.value_opt is reachable from %s, which may be "
                     "called between stabilises: observers would change value without a stabilise (%s)"
                     % (prog.fns[e].short, " -> ".join(q.short_path(x) for x in p)), fn=prog.fns[e])
        else:
            ctx.ok(R, "reach:" + prog.fns[e].short)
    ctx.floor(R + "", n, 40)


def wmw_inuse(ctx, prog):
    R = "C07.WMW-inuse"
    ctx.rule(R, "ObserverState::InUse is stored only in State::add_new_observers, which is called only from "
                "stabilise_start; State::observe only queues the new observer")
    ws = writes_of(prog, "incremental::internal_observer::InternalObserver.state")
    found = False
    for a in ws:
        if a.kind != "set":
            continue
        e = expr(a.fn, a.site.args[1], DefUse(a.fn))
        ctx.site(R, a.fn, "bb%d state := %s" % (a.bb, show(e)))
        if e[0] == "agg" and e[1] == "ObserverState::InUse":
            if a.fn.path == q.STATE + "add_new_observers":
                found = True
                ctx.ok(R, "inuse:add_new_observers")
            else:
                ctx.fail(R, "inuse:" + a.fn.short, "an observer becomes InUse in %s: it would return values before "
                         "having been through a stabilise" % a.fn.short, fn=a.fn, span=a.span)
        elif e[0] != "agg":
            ctx.fail(R, "store:" + a.fn.short, "observer state is set to a computed value %s" % show(e), fn=a.fn,
                     span=a.span, kind="anchor")
    if not found:
        ctx.missing(R, "store of InUse in add_new_observers")
    AN = prog.fn(q.STATE + "add_new_observers")
    if AN is not None:
        for t in prog.callers(AN):
            ctx.site(R, t.fn, "bb%d call add_new_observers" % t.bb)
            if t.fn.path != q.STATE + "stabilise_start":
                ctx.fail(R, "caller:" + t.fn.short, "add_new_observers called outside stabilise_start", fn=t.fn, span=t.span)
            else:
                ctx.ok(R, "caller:stabilise_start")
    OB = None
    for F in prog.fns.values():
        if q.strip_generics(F.path) == q.STATE + "observe":
            OB = F
    if OB is None:
        ctx.missing(R, "State::observe")
    else:
        from .colls import coll_ops
        ops = [(o.sign, sorted(f.rsplit(".", 1)[-1] for f in o.fields)) for o in coll_ops(prog, OB)]
        ctx.site(R, OB, "collection ops %s" % ops)
        bad = q.calls_in(OB, "add_to_observed_node", "became_necessary", "Incremental::add_observer")
        if ops == [("+", ["new_observers"])] and not bad:
            ctx.ok(R, "observe:queues")
        else:
            ctx.fail(R, "observe:queues", "State::observe must only push the observer on new_observers (found %s, "
                     "direct linking calls %d)" % (ops, len(bad)), fn=OB)
    # InternalObserver::new starts in Created
    NW = prog.fn(q.OBS + "new")
    if NW is not None:
        good = False
        for G in prog.with_closures(NW):
            for s in G.stmts():
                rv = s.rv or {}
                if "agg" in rv and isinstance(rv["agg"], dict) and rv["agg"].get("adt", "").endswith("InternalObserver"):
                    names = rv["agg"]["fields"]
                    e = expr(G, rv["ops"][names.index("state")], DefUse(G))
                    if mentions(e, lambda x: x[0] == "agg" and x[1] == "ObserverState::Created"):
                        good = True
        if good:
            ctx.ok(R, "new:Created")
        else:
            ctx.fail(R, "new:Created", "a new observer does not start in the Created state", fn=NW)


def tyg_by_value(ctx, prog):
    R = "C07.TYG-by-value"
    ctx.rule(R, "Observer::try_get_value / InternalObserver::value_inner return the value by clone (Result<T, _>), "
                "never a reference into the node")
    for path in ("incremental::public::Observer::<T>::try_get_value", q.OBS + "try_get_value", q.OBS + "value_inner"):
        F = ctx.need_fn(R, path)
        if F is None:
            continue
        ty = F.local_ty(0)
        ctx.site(R, F, "returns " + ty)
        if ty.startswith("core::result::Result<T, ") and "&" not in ty and "Ref<" not in ty:
            ctx.ok(R, "ret:" + F.short)
        else:
            ctx.fail(R, "ret:" + F.short, "%s returns %s: a reference into the node's value cell would observe later "
                     "stabilises" % (F.short, ty), fn=F)


for _f, _id in ((guard_read, "C07.GUARD-read"), (wmw_value, "C07.WMW-value"), (wmw_inuse, "C07.WMW-inuse"),
                (tyg_by_value, "C07.TYG-by-value")):
    _f.rule_id = _id

def dom_status_first(ctx, prog, R="C07.DOM-status-first"):
    """The status store `Stabilising` is the first thing a stabilise does: every call in stabilise_start (and in
    its caller, before stabilise_start) from which user code is reachable is dominated by it. Otherwise an
    observability callback / a Drop run while linking or unlinking observers sees NotStabilising: reads return
    half-updated values and var writes are applied to the pass in progress."""
    from .usercalls import user_calls
    from .callgraph import path_between
    from .effects import writes_of as _writes_of
    ctx.rule(R, "State.status := Stabilising dominates every call of stabilise_start, and precedes every call of its "
                "caller, from which a user function (node function, observability callback, handler) is reachable")
    ws = [a for a in _writes_of(prog, "incremental::state::State.status") if a.kind == "set"]
    stores = []
    for a in ws:
        e = expr(a.fn, a.site.args[1], DefUse(a.fn)) if len(a.site.args) > 1 else ("?",)
        if e[0] == "agg" and e[1] == "IncrStatus::Stabilising":
            stores.append(a)
    if len(stores) != 1:
        ctx.missing(R, "the single store of IncrStatus::Stabilising (found %d)" % len(stores))
        return
    st = stores[0]
    S = st.fn
    user_fns = {u.site.fn.path for u in user_calls(prog)}
    if not user_fns:
        ctx.missing(R, "user call sites")
        return

    def reaches_user(t):
        roots = [T.path for T in prog.call_targets(t)]
        return path_between(prog, roots, user_fns) if roots else None

    c = S.cfg()
    n = 0
    for t in S.calls():
        if S.is_cleanup(t.bb) or t.bb == st.bb:
            continue
        p = reaches_user(t)
        if p is None:
            continue
        n += 1
        ctx.site(R, S, "bb%d call %s reaches user code" % (t.bb, q.short_path(t.callee)))
        inst = "after-store:" + q.short_path(t.callee)
        if c.dominates(st.bb, t.bb):
            ctx.ok(R, inst)
        else:
            ctx.fail(R, inst, "%s runs before the status becomes Stabilising and can reach user code (%s): the "
                     "callback would read observers / write vars as if no stabilise were running"
                     % (q.short_path(t.callee), " -> ".join(q.short_path(x) for x in p)), fn=S, span=t.span)
    ctx.floor(R, n, 2)
    # the caller(s): nothing user-reaching before the call of S
    for ct in prog.callers(S):
        P = ct.fn
        pc = P.cfg()
        for t in P.calls():
            if P.is_cleanup(t.bb) or t.bb == ct.bb or pc.dominates(ct.bb, t.bb):
                continue
            if q.is_tracing(t) or t.j.get("from_expansion"):
                continue
            p = reaches_user(t)
            if p is None:
                continue
            ctx.site(R, P, "bb%d call %s before stabilise_start" % (t.bb, q.short_path(t.callee)))
            ctx.fail(R, "before-start:" + q.short_path(t.callee), "%s can reach user code and is not preceded by "
                     "stabilise_start in %s" % (q.short_path(t.callee), P.short), fn=P, span=t.span)
        ctx.ok(R, "caller:" + P.short)


dom_status_first.rule_id = "C07.DOM-status-first"


def sib_var_slot(ctx, prog):
    """The var's value slot is part of the snapshot: while Stabilising no write path of Var may touch it
    (the deferred slot takes the write). Same table as C08.SIB-writes, reported under C07."""
    from .engine import run_relabelled
    from .c08 import sib_writes
    run_relabelled(ctx, prog, sib_writes, "C08.SIB-writes", "C07.SIB-var-slot")


sib_var_slot.rule_id = "C07.SIB-var-slot"

def dtab_api(ctx, prog):
    """value_inner: a Created observer (not yet through a stabilise) answers NeverStabilised whatever its node
    already holds. Same table as C10.DTAB-api."""
    from .engine import run_relabelled
    from .c10 import dtab_api as f
    run_relabelled(ctx, prog, f, "C10.DTAB-api", "C07.DTAB-api")


dtab_api.rule_id = "C07.DTAB-api"

def wmc_truncating(ctx, prog):
    """Every observer created before a stabilise is linked by it (no walk over the new-observer queue ends at a dead
    entry): otherwise some observers still answer NeverStabilised while later ones show new values."""
    from .c11 import wmc_loop_exit_on_dead, _wmc_truncating_adaptors
    from .engine import run_relabelled
    R = "C07.WMC-truncating"
    ctx.rule(R, "no loop over the observer queues ends on a dead weak entry; no truncating adaptor")
    run_relabelled(ctx, prog, _wmc_truncating_adaptors, "C11.WMC-truncating", R)
    wmc_loop_exit_on_dead(ctx, prog, R)


wmc_truncating.rule_id = "C07.WMC-truncating"

RULES = [guard_read, wmw_value, wmw_inuse, tyg_by_value, sib_var_slot, dom_status_first, dtab_api, wmc_truncating]

# control signature of the bookkeeping effects this property depends on (rules/ctrlsig.py)
from .ctrlsig import make_rule as _ctrl_rule  # noqa: E402
RULES.append(_ctrl_rule("C07"))
