"""Checker self-test (thorough tier): every seeded variant in mutants/ must be reported by the rule it
names. This is still static analysis: the variant source is analysed, nothing from it is executed.
Scratch copies live under a mktemp directory outside /repo and /verif and are removed immediately."""
import concurrent.futures
import json
import os
import shutil
import subprocess
import sys
import tempfile
import time

from . import extract

VERIF = extract.VERIF
MUT = os.path.join(VERIF, "mutants")


SEEDED = os.path.join(VERIF, "seeded")
BENIGN = os.path.join(VERIF, "benign")


def load_index():
    """mutants/ (textual variants, each names the rule that must report it), seeded/ (changes written by
    independent sub-agents, must be reported by a rule of the property they break) and benign/
    (behaviour-preserving edits: every listed property must stay silent)."""
    with open(os.path.join(MUT, "index.json")) as fh:
        ms = json.load(fh)["mutants"]
    for m in ms:
        m["patch"] = os.path.join(MUT, m["name"] + ".patch")
    if os.path.isdir(SEEDED):
        for d in sorted(os.listdir(SEEDED)):
            mp = os.path.join(SEEDED, d, "meta.json")
            if not os.path.exists(mp):
                continue
            meta = json.load(open(mp))
            prop = meta["breaks_property"]
            own = sorted({c["rule"] for c in meta.get("checks_that_report_it", []) if c["rule"].startswith(prop + ".")})
            if not own:
                continue
            ms.append({"name": "seeded-" + d, "property": prop, "rule": own[0], "configs": "dbg",
                       "patch": os.path.join(SEEDED, d, "patch.diff")})
    bi = os.path.join(BENIGN, "index.json")
    if os.path.exists(bi):
        for b in json.load(open(bi))["benign"]:
            for prop in b["properties"]:
                ms.append({"name": "benign-%s-%s" % (b["name"], prop), "property": prop, "rule": None,
                           "configs": "dbg", "patch": os.path.join(BENIGN, b["name"] + ".patch"),
                           "expect": "silent"})
    return ms


def _scratch_copy(dst):
    subprocess.check_call(["rsync", "-a", "--exclude", "target", "--exclude", ".git", extract.REPO + "/", dst + "/"])


_SCRATCH_FACTS = set()


def _drop_scratch_facts():
    for th in list(_SCRATCH_FACTS):
        shutil.rmtree(os.path.join(extract.WORK, "facts", th), ignore_errors=True)
        _SCRATCH_FACTS.discard(th)


def run_one(m, worker=0, keep=False):
    """Returns dict(name, status in {'fired','silent','inapplicable','nobuild'}, detail)."""
    tmp = tempfile.mkdtemp(prefix="verif-selftest-")
    t0 = time.time()
    th = None
    try:
        _scratch_copy(tmp)
        patch = m.get("patch") or os.path.join(MUT, m["name"] + ".patch")
        r = subprocess.run(["patch", "-p1", "--forward", "--batch", "-s", "-i", patch], cwd=tmp,
                           stdout=subprocess.PIPE, stderr=subprocess.STDOUT, text=True)
        if r.returncode != 0:
            return {"name": m["name"], "status": "inapplicable", "detail": r.stdout[-300:], "wall_s": time.time() - t0}
        env = dict(os.environ)
        env["VERIF_REPO"] = tmp
        env["VERIF_TGT_SUFFIX"] = "-st%d" % worker
        th, _ = extract.tree_hash(tmp)
        cfgs = m.get("configs", "dbg")
        cmd = [sys.executable, os.path.join(VERIF, "check"), m["property"], "--configs", cfgs, "--no-evidence"]
        if m.get("rule"):
            cmd += ["--rule", m["rule"]]
        r = subprocess.run(cmd, cwd=VERIF, env=env, stdout=subprocess.PIPE, stderr=subprocess.STDOUT, text=True)
        out = r.stdout
        if r.returncode == 2:
            return {"name": m["name"], "status": "nobuild", "detail": out[-600:], "wall_s": time.time() - t0}
        if m.get("expect") == "silent":
            # behaviour-preserving edit: any report is a false alarm of the checker
            st = "fired" if r.returncode == 0 else "silent"   # 'fired' = met its expectation
            return {"name": m["name"], "status": st, "wall_s": time.time() - t0,
                    "detail": "FALSE ALARM on a behaviour-preserving edit:\n" +
                              "\n".join(l for l in out.splitlines() if "rule " in l and "instance" in l)[:900]}
        fired = r.returncode == 1 and ("rule %s " % m["rule"]) in out
        # a floor/anchor/crash report is not a detection of the seeded change
        real = [l for l in out.splitlines() if l.startswith("VIOLATION")]
        return {"name": m["name"], "status": "fired" if fired else "silent",
                "detail": "\n".join(l for l in out.splitlines() if "rule " in l and "instance" in l)[:600] or out[-400:],
                "violations": len(real), "wall_s": time.time() - t0}
    finally:
        shutil.rmtree(tmp, ignore_errors=True)
        if th:
            _SCRATCH_FACTS.add(th)      # removed at the end of run(): other variants of the same tree reuse them


def run(mutants, workers=4, out=sys.stdout):
    import queue
    results = []
    ids = queue.Queue()
    for i in range(workers):
        ids.put(i)

    def job(m):
        w = ids.get()           # one target-dir suffix per concurrently running job
        try:
            return run_one(m, w)
        finally:
            ids.put(w)

    with concurrent.futures.ThreadPoolExecutor(max_workers=workers) as ex:
        futs = {}
        for i, m in enumerate(sorted(mutants, key=lambda m: (m.get("patch") or m["name"], m["property"]))):
            futs[ex.submit(job, m)] = m
        for f in concurrent.futures.as_completed(futs):
            r = f.result()
            results.append(r)
            print("  selftest %-40s %-12s %.1fs" % (r["name"], r["status"], r["wall_s"]), file=out)
            out.flush()
    _drop_scratch_facts()
    return sorted(results, key=lambda r: r["name"])


def run_for_property(prop, out=sys.stdout):
    ms = [m for m in load_index() if m["property"] == prop]
    if not ms:
        print("selftest: no seeded variants registered for %s" % prop, file=out)
        return 0
    t0 = time.time()
    res = run(ms, workers=int(os.environ.get("VERIF_SELFTEST_WORKERS", "6")), out=out)
    fired = [r for r in res if r["status"] == "fired"]
    silent = [r for r in res if r["status"] == "silent"]
    other = [r for r in res if r["status"] not in ("fired", "silent")]
    # merge into the evidence file written by the rule run
    evp = os.path.join(VERIF, "evidence", "%s.json" % prop)
    try:
        with open(evp) as fh:
            ev = json.load(fh)
        ev["coverage"]["self_test"] = {
            "variants": len(res), "fired": len(fired), "silent": [r["name"] for r in silent],
            "not_applicable_to_this_tree": [r["name"] for r in other],
            "silent_on_current_tree": ev.get("violations", 0) == 0,
            "rule": "each variant is a small edit of the current /repo tree (scratch copy); the named rule must "
                    "report it; variants whose patch no longer applies are skipped",
        }
        ev["wall_s"] = round(ev.get("wall_s", 0) + time.time() - t0, 3)
        with open(evp, "w") as fh:
            json.dump(ev, fh, indent=1)
    except Exception as e:  # pragma: no cover
        print("selftest: cannot update evidence: %r" % e, file=out)
    print("selftest %s: %d variants, %d fired, %d silent, %d skipped" % (prop, len(res), len(fired), len(silent),
                                                                         len(other)), file=out)
    if silent:
        for r in silent:
            print("SELFTEST-MISS property=%s variant=%s (the check is weaker than claimed)\n%s" % (
                prop, r["name"], r["detail"]), file=out)
        return 3
    return 0


def baseline_ok(ms, out=sys.stdout):
    """The rules the variants name must pass on the unmodified tree, otherwise `fired` means nothing."""
    bad = set()
    for prop, rule in sorted({(m["property"], m["rule"]) for m in ms if m.get("rule")}):
        r = subprocess.run([sys.executable, os.path.join(VERIF, "check"), prop, "--rule", rule, "--configs", "dbg"],
                           cwd=VERIF, stdout=subprocess.PIPE, stderr=subprocess.STDOUT, text=True)
        if r.returncode != 0:
            print("BASELINE-BROKEN %s %s\n%s" % (prop, rule, r.stdout[-600:]), file=out)
            bad.add((prop, rule))
    return bad


if __name__ == "__main__":
    names = set(sys.argv[1:])
    ms = [m for m in load_index() if not names or m["name"] in names or m["property"] in names]
    broken = baseline_ok(ms)
    if broken:
        print("baseline broken for %s; fix the rules first" % sorted(broken))
        sys.exit(2)
    res = run(ms, workers=int(os.environ.get("VERIF_SELFTEST_WORKERS", "6")))
    bad = [r for r in res if r["status"] != "fired"]
    for r in bad:
        print("==", r["name"], r["status"])
        print(r["detail"])
    print("%d/%d fired" % (len(res) - len(bad), len(res)))
