"""Per-body control-flow algorithms: dominators, post-dominators, avoid-reachability, control
dependence, natural loops, def-use and backward provenance over MIR locals."""
from collections import defaultdict, deque

from .facts import Place, op_place, op_const, strip_generics


def _is_panic_callee(c):
    if not c:
        return False
    c = strip_generics(c)
    return (c.startswith("core::panicking::") or c.startswith("std::rt::begin_panic")
            or c.startswith("core::panic") or c in ("core::option::unwrap_failed",
                                                    "core::option::expect_failed",
                                                    "core::result::unwrap_failed")
            or c.startswith("std::panicking::"))


class CFG:
    def __init__(self, fn):
        self.fn = fn
        self.n = len(fn.blocks)
        self.succ = [[] for _ in range(self.n)]       # normal edges only
        self.usucc = [[] for _ in range(self.n)]      # unwind edges
        self.edge_label = {}                          # (a, b) -> label list (switch values)
        self.exits = []                               # blocks ending in `return`
        self.diverge = []                             # blocks that end without successor (panic..)
        for b in fn.blocks:
            i = b["id"]
            t = b["term"]
            k = t["k"]
            if k == "goto":
                self._add(i, t["target"], None)
            elif k == "switch":
                cv = self._const_switch_value(b)
                if cv is not None:
                    # `if cfg!(debug_assertions)` and friends: the operand is a literal assigned in
                    # this very block, only one edge is feasible
                    tgt = t["otherwise"]
                    lab = "otherwise"
                    for v, tb in t["targets"]:
                        if v == cv:
                            tgt, lab = tb, v
                    self._add(i, tgt, lab)
                    self.folded = getattr(self, "folded", 0) + 1
                else:
                    for v, tb in t["targets"]:
                        self._add(i, tb, v)
                    self._add(i, t["otherwise"], "otherwise")
            elif k in ("drop", "assert"):
                self._add(i, t["target"], None)
                if isinstance(t.get("unwind"), int):
                    self.usucc[i].append(t["unwind"])
            elif k == "call":
                if t.get("target") is not None:
                    self._add(i, t["target"], None)
                else:
                    self.diverge.append(i)
                if isinstance(t.get("unwind"), int):
                    self.usucc[i].append(t["unwind"])
            elif k == "return":
                self.exits.append(i)
            elif k in ("unreachable", "resume", "terminate"):
                self.diverge.append(i)
            elif k == "tailcall":
                self.exits.append(i)
            else:
                self.diverge.append(i)
        self.pred = [[] for _ in range(self.n)]
        for a in range(self.n):
            for b in self.succ[a]:
                self.pred[b].append(a)
        self._dom = None
        self._pdom = None
        self._reach0 = None

    @staticmethod
    def _const_switch_value(b):
        t = b["term"]
        p = op_place(t["on"])
        if p is None:
            c = op_const(t["on"])
            return c.get("int") if c else None
        if p.proj:
            return None
        val = None
        for s in b["stmts"]:
            if s["k"] == "assign" and s["dst"]["local"] == p.local and not s["dst"]["proj"]:
                rv = s["rv"]
                c = op_const(rv["use"]) if "use" in rv else None
                val = c.get("int") if c is not None else None
        return val

    def _add(self, a, b, label):
        if b not in self.succ[a]:
            self.succ[a].append(b)
        self.edge_label.setdefault((a, b), []).append(label)

    # ------------------------------------------------------------------ reachability
    def reachable_from_entry(self):
        if self._reach0 is None:
            self._reach0 = self.reach({0})
        return self._reach0

    def reach(self, starts, avoid=frozenset(), avoid_edges=frozenset()):
        """Blocks reachable from `starts` (inclusive) along normal edges without entering `avoid`."""
        seen = set()
        dq = deque(s for s in starts if s not in avoid)
        seen.update(dq)
        while dq:
            a = dq.popleft()
            for b in self.succ[a]:
                if b in avoid or b in seen or (a, b) in avoid_edges:
                    continue
                seen.add(b)
                dq.append(b)
        return seen

    def path(self, starts, goals, avoid=frozenset(), avoid_edges=frozenset()):
        """Shortest path (list of blocks) from any of `starts` to any of `goals`, or None."""
        goals = set(goals)
        prev = {}
        dq = deque()
        for s in starts:
            if s in avoid:
                continue
            prev[s] = None
            dq.append(s)
        while dq:
            a = dq.popleft()
            if a in goals:
                out = []
                while a is not None:
                    out.append(a)
                    a = prev[a]
                return out[::-1]
            for b in self.succ[a]:
                if b in avoid or b in prev or (a, b) in avoid_edges:
                    continue
                prev[b] = a
                dq.append(b)
        return None

    def path_to_exit_avoiding(self, start_block, avoid, avoid_edges=frozenset(), after=True):
        """Path from the successors of start_block (or from it) to a normal `return`, avoiding."""
        starts = self.succ[start_block] if after else [start_block]
        starts = [s for s in starts if (start_block, s) not in avoid_edges or not after]
        return self.path(starts, self.exits, avoid, avoid_edges)

    # ------------------------------------------------------------------ dominators
    def dominators(self):
        if self._dom is None:
            self._dom = self._dominators(self.succ, self.pred, [0])
        return self._dom

    def _dominators(self, succ, pred, roots):
        n = self.n
        allb = set()
        dq = deque(roots)
        allb.update(roots)
        while dq:
            a = dq.popleft()
            for b in succ[a]:
                if b not in allb:
                    allb.add(b)
                    dq.append(b)
        dom = {b: set(allb) for b in allb}
        for r in roots:
            dom[r] = {r}
        changed = True
        order = sorted(allb)
        while changed:
            changed = False
            for b in order:
                if b in roots:
                    continue
                ps = [p for p in pred[b] if p in allb]
                if not ps:
                    new = {b}
                else:
                    new = set.intersection(*(dom[p] for p in ps)) | {b}
                if new != dom[b]:
                    dom[b] = new
                    changed = True
        return dom

    def dominates(self, a, b):
        """Every path from entry to b passes a (a == b counts)."""
        d = self.dominators()
        return b in d and a in d[b]

    def postdominators(self):
        """Post-dominance w.r.t. normal `return` exits (diverging blocks are not exits)."""
        if self._pdom is None:
            # reverse graph with virtual exit = n
            n = self.n
            rsucc = [list(self.pred[i]) for i in range(n)] + [list(self.exits)]
            rpred = [list(self.succ[i]) for i in range(n)] + [[]]
            for e in self.exits:
                rpred[e] = rpred[e] + [n]
            old_n = self.n
            self.n = n + 1
            try:
                self._pdom = self._dominators(rsucc, rpred, [n])
            finally:
                self.n = old_n
        return self._pdom

    def postdominates(self, a, b):
        """Every path from b to a normal return passes a."""
        p = self.postdominators()
        return b in p and a in p[b]

    # ------------------------------------------------------------------ loops
    def back_edges(self):
        out = []
        d = self.dominators()
        for a in d:
            for b in self.succ[a]:
                if b in d[a]:
                    out.append((a, b))
        return out

    def natural_loop(self, back_edge):
        a, h = back_edge
        body = {h, a}
        st = [a]
        while st:
            x = st.pop()
            if x == h:
                continue
            for p in self.pred[x]:
                if p not in body:
                    body.add(p)
                    st.append(p)
        return body

    def loops(self):
        """header -> set of blocks (merged over back edges to the same header)."""
        out = defaultdict(set)
        for e in self.back_edges():
            out[e[1]] |= self.natural_loop(e)
        return dict(out)

    def in_loop(self, bb):
        return [h for h, body in self.loops().items() if bb in body]

    # ------------------------------------------------------------------ control dependence
    def controlling_switches(self, bb, stop_at_entry=True):
        """Switch blocks s with an edge (s->x) such that bb is reachable only via some of the
        outgoing edges of s: returns list of (switch_block, set_of_edge_targets_that_can_reach_bb)
        for every switch block that dominates bb or from which bb is reachable on a strict subset
        of its edges."""
        out = []
        for s in range(self.n):
            t = self.fn.blocks[s]["term"]
            if t["k"] != "switch":
                continue
            if s not in self.reachable_from_entry():
                continue
            # `otherwise -> unreachable` arms of exhaustive matches are not real alternatives
            succs = [x for x in self.succ[s] if self.fn.blocks[x]["term"]["k"] != "unreachable"]
            # arms that can only diverge (assert!/panic!) are not alternatives either, unless the
            # queried block itself lies on one
            live = [x for x in succs if self._can_return(x)]
            if live and any(bb in self.reach({x}, avoid={s}) for x in live):
                succs = live
            can = set()
            for x in succs:
                if bb in self.reach({x}, avoid={s}):
                    can.add(x)
            if can and can != set(succs):
                out.append((s, can))
        return out

    def _can_return(self, bb):
        cache = self.__dict__.setdefault("_can_ret", {})
        if bb not in cache:
            cache[bb] = bool(self.reach({bb}) & set(self.exits))
        return cache[bb]

    def edge_values(self, a, b):
        return self.edge_label.get((a, b), [])


# ---------------------------------------------------------------------- def-use / provenance

PASS_THROUGH = (
    "core::ops::deref::Deref::deref",
    "core::ops::deref::DerefMut::deref_mut",
    "core::clone::Clone::clone",
    "core::convert::AsRef::as_ref",
    "core::convert::AsMut::as_mut",
    "core::borrow::Borrow::borrow",
    "core::convert::Into::into",
    "core::convert::From::from",
    "core::option::Option::as_ref",
    "core::option::Option::as_mut",
    "core::option::Option::as_deref",
    "core::option::Option::unwrap",
    "core::option::Option::expect",
    "core::option::Option::cloned",
    "core::option::Option::take",
    "core::result::Result::unwrap",
    "core::cell::RefCell::borrow",
    "core::cell::RefCell::borrow_mut",
    "core::cell::Cell::get",
    "alloc::rc::Rc::as_ptr",
    "alloc::rc::Weak::upgrade",
    "alloc::rc::Rc::downgrade",
    "core::slice::iter::Iter::next",
    "core::iter::traits::iterator::Iterator::next",
    "core::iter::traits::iterator::Iterator::enumerate",
    "core::iter::traits::collect::IntoIterator::into_iter",
    "core::slice::iter",
    "core::slice::iter_mut",
    "core::slice::last",
    "core::slice::first",
    "core::slice::get",
    "alloc::vec::Vec::drain",
    "alloc::vec::Vec::pop",
    "alloc::vec::Vec::iter",
    "std::collections::hash::map::HashMap::get",
    "std::collections::hash::map::HashMap::iter",
    "std::collections::hash::map::HashMap::values",
    "std::collections::hash::map::HashMap::remove",
    "alloc::collections::btree::map::BTreeMap::get",
    "alloc::collections::btree::map::BTreeMap::remove",
    "im_rc::ord::map::OrdMap::get",
    "im_rc::ord::map::OrdMap::remove",
    "core::cell::Ref::map",
    "core::cell::RefCell::take",
    "smallvec::SmallVec::iter",
    "core::ops::try_trait::Try::branch",
    "core::ops::index::Index::index",
    "core::ops::index::IndexMut::index_mut",
)


class DefUse:
    """Flow-insensitive definitions of MIR locals (assignments and call destinations)."""

    def __init__(self, fn):
        self.fn = fn
        self.defs = defaultdict(list)    # local -> list of ("assign", Stmt) | ("call", Term)
        self.pdefs = defaultdict(list)   # local -> writes through a projection
        for s in fn.stmts():
            if s.dst is None:
                continue
            if s.dst.is_local():
                self.defs[s.dst.local].append(("assign", s))
            else:
                self.pdefs[s.dst.local].append(("assign", s))
        for t in fn.terms():
            if t.is_call and t.dst is not None:
                if t.dst.is_local():
                    self.defs[t.dst.local].append(("call", t))
                else:
                    self.pdefs[t.dst.local].append(("call", t))

    def single_def(self, local):
        d = self.defs.get(local, [])
        return d[0] if len(d) == 1 else None


def trait_method(callee):
    """`<X as path::Trait<..>>::m` -> `path::Trait::m`; other paths unchanged (turbofish stripped)."""
    c = strip_generics(callee)
    if c.startswith("<"):
        # find the top-level " as "
        depth = 0
        i = 1
        as_at = None
        end = None
        while i < len(c):
            ch = c[i]
            if ch == "<":
                depth += 1
            elif ch == ">":
                if depth == 0:
                    end = i
                    break
                depth -= 1
            elif depth == 0 and c.startswith(" as ", i) and as_at is None:
                as_at = i
            i += 1
        if as_at is not None and end is not None:
            trait = c[as_at + 4:end]
            lt = trait.find("<")
            if lt >= 0:
                trait = trait[:lt]
            return trait + c[end + 1:]
    return c


def is_pass_through(callee, extra=()):
    if not callee:
        return False
    c = strip_generics(callee)
    if c in PASS_THROUGH or c in extra:
        return True
    c2 = trait_method(callee)
    return c2 in PASS_THROUGH or c2 in extra


class Origin:
    """A root of a provenance walk."""
    __slots__ = ("kind", "what", "site", "fields")

    def __init__(self, kind, what, site=None, fields=()):
        self.kind = kind      # 'arg' | 'call' | 'const' | 'agg' | 'upvar' | 'unknown'
        self.what = what      # arg index / callee path / const json / adt variant
        self.site = site
        self.fields = tuple(fields)   # field projections applied on the way (outermost last)

    def key(self):
        return (self.kind, str(self.what), self.fields)

    def __repr__(self):
        f = "".join("." + x.rsplit(".", 1)[-1] for x in self.fields)
        return "%s(%s)%s" % (self.kind, self.what if not isinstance(self.what, dict) else
                             self.what.get("text", self.what), f)


def origins(fn, place_or_local, du=None, extra_pass=(), max_steps=400, stop_calls=None):
    """Backward provenance of a place: the set of Origins it may derive from, walking through
    moves/copies/refs/casts, field projections and pass-through calls (receiver = first argument).
    `stop_calls(term) -> bool` lets a rule treat a call as a root even if it is pass-through."""
    du = du or DefUse(fn)
    out = {}
    seen = set()
    if isinstance(place_or_local, Place):
        start = (place_or_local.local, tuple(place_or_local.fields()))
    else:
        start = (place_or_local, ())
    work = [start]
    steps = 0
    while work and steps < max_steps:
        steps += 1
        local, fields = work.pop()
        if (local, fields) in seen:
            continue
        seen.add((local, fields))
        if 1 <= local <= fn.arg_count:
            # closure upvars: _1 is the closure env
            if fn.is_closure and local == 1 and fields:
                o = Origin("upvar", fields[0], None, fields[1:])
            else:
                o = Origin("arg", local, None, fields)
            out[o.key()] = o
            # arguments can also be reassigned (rare); fall through to defs
        ds = du.defs.get(local, [])
        if not ds and not (1 <= local <= fn.arg_count):
            o = Origin("unknown", "undef _%d" % local, None, fields)
            out[o.key()] = o
        for kind, d in ds:
            if kind == "assign":
                rv = d.rv
                if rv is None:
                    continue
                src = None
                if "use" in rv:
                    src = op_place(rv["use"])
                    if src is None:
                        o = Origin("const", op_const(rv["use"]), d, fields)
                        out[o.key()] = o
                        continue
                elif "ref" in rv:
                    src = Place(rv["ref"])
                elif "rawptr" in rv:
                    src = Place(rv["rawptr"])
                elif "cast" in rv:
                    src = op_place(rv["cast"])
                    if src is None:
                        o = Origin("const", op_const(rv["cast"]), d, fields)
                        out[o.key()] = o
                        continue
                elif "discr" in rv:
                    src = Place(rv["discr"])
                elif "agg" in rv:
                    a = rv["agg"]
                    # project through aggregate construction when a field is requested
                    if fields and isinstance(a, dict) and "adt" in a:
                        want = fields[0].rsplit(".", 1)[-1]
                        names = a.get("fields", [])
                        if want in names:
                            op = rv["ops"][names.index(want)]
                            p = op_place(op)
                            if p is not None:
                                work.append((p.local, tuple(p.fields()) + fields[1:]))
                            else:
                                o = Origin("const", op_const(op), d, fields[1:])
                                out[o.key()] = o
                            continue
                    if fields and a == "tuple" and fields[0].startswith("tuple."):
                        i = int(fields[0].split(".")[1])
                        if i < len(rv["ops"]):
                            p = op_place(rv["ops"][i])
                            if p is not None:
                                work.append((p.local, tuple(p.fields()) + fields[1:]))
                            else:
                                o = Origin("const", op_const(rv["ops"][i]), d, fields[1:])
                                out[o.key()] = o
                            continue
                    o = Origin("agg", a if not isinstance(a, dict) else
                               (a.get("adt", a.get("closure", "?")) + "::" + a.get("variant", "")), d, fields)
                    out[o.key()] = o
                    # also follow operands (the aggregate wraps them)
                    for op in rv["ops"]:
                        p = op_place(op)
                        if p is not None:
                            work.append((p.local, tuple(p.fields())))
                    continue
                elif "bin" in rv or "un" in rv:
                    ops = rv["bin"][1:] if "bin" in rv else rv["un"][1:]
                    for op in ops:
                        p = op_place(op)
                        if p is not None:
                            work.append((p.local, tuple(p.fields())))
                        else:
                            o = Origin("const", op_const(op), d, ())
                            out[o.key()] = o
                    continue
                else:
                    o = Origin("unknown", str(rv)[:60], d, fields)
                    out[o.key()] = o
                    continue
                if src is not None:
                    work.append((src.local, tuple(src.fields()) + fields))
            else:
                t = d
                c = t.callee
                if (stop_calls is None or not stop_calls(t)) and is_pass_through(c, extra_pass) and t.args:
                    p = op_place(t.args[0])
                    if p is not None:
                        work.append((p.local, tuple(p.fields()) + fields))
                        # keep the call itself as an origin too (useful for 'derived via upgrade')
                        o = Origin("via", strip_generics(c), t, fields)
                        out[o.key()] = o
                        continue
                o = Origin("call", strip_generics(c) if c else t.j.get("callee_ty", "?"), t, fields)
                out[o.key()] = o
    return list(out.values())


def uses_of_local(fn, local):
    """All statements/terminators that read `local` (as operand base or place base)."""
    out = []

    def op_uses(o):
        p = op_place(o)
        return p is not None and p.local == local

    for s in fn.stmts():
        rv = s.rv
        if rv is None:
            continue
        hit = False
        for k in ("use", "cast", "repeat"):
            if k in rv and op_uses(rv[k]):
                hit = True
        for k in ("ref", "discr", "rawptr"):
            if k in rv and rv[k]["local"] == local:
                hit = True
        if "bin" in rv and any(op_uses(o) for o in rv["bin"][1:]):
            hit = True
        if "un" in rv and op_uses(rv["un"][1]):
            hit = True
        if "agg" in rv and any(op_uses(o) for o in rv["ops"]):
            hit = True
        if s.dst is not None and s.dst.local == local and s.dst.proj:
            hit = True
        if hit:
            out.append(s)
    for t in fn.terms():
        j = t.j
        if t.is_call:
            if any(op_uses(a) for a in t.args) or op_uses(j.get("func")):
                out.append(t)
        elif t.kind == "switch" and op_uses(j["on"]):
            out.append(t)
        elif t.kind == "drop" and j["place"]["local"] == local:
            out.append(t)
        elif t.kind == "assert" and op_uses(j["cond"]):
            out.append(t)
    return out
