use incremental::*;
use std::cell::{Cell, RefCell};
use std::rc::Rc;

// D4: map_ref under a parent that was unobserved while the input changed
#[test]
fn d4_mapref_stale_flag() {
    let st = IncrState::new();
    let v = st.var((1i32, 10i32));
    let keep = v.observe(); // keeps v necessary
    let m = v.map_ref(|t| &t.0);
    let p = m.map(|x| *x * 100);
    let o = p.observe();
    st.stabilise();
    assert_eq!(o.value(), 100);
    // change only .1 so that projection unchanged -> did_change=false
    v.set((1, 11));
    st.stabilise();
    assert_eq!(o.value(), 100);
    drop(o);
    st.stabilise();
    v.set((2, 11));
    st.stabilise();
    let o2 = p.observe();
    st.stabilise();
    assert_eq!(o2.value(), 200, "p should be recomputed from projection 2");
    drop(keep);
}

// D5: can_recompute_now bypass: rhs node of a bind run with stale lhs
#[test]
fn d5_bypass() {
    let st = IncrState::new();
    let s = st.var(1i32);
    let t1 = s.map(|x| *x + 0);
    let t2 = t1.map(|x| *x + 0);
    // make t1 the first parent of s: observe t2 first
    let o_t2 = t2.observe();
    st.stabilise();
    let log: Rc<RefCell<Vec<(i32, i32)>>> = Rc::new(RefCell::new(vec![]));
    let log2 = log.clone();
    let t2c = t2.clone();
    let b = s.bind(move |&lhs| {
        let log3 = log2.clone();
        t2c.map(move |&x| {
            log3.borrow_mut().push((lhs, x));
            x + lhs
        })
    });
    let o = b.observe();
    st.stabilise();
    assert_eq!(o.value(), 2);
    s.set(5);
    st.stabilise();
    println!("log = {:?}", log.borrow());
    assert_eq!(o.value(), 10);
    // stale closure (captured lhs=1) must never run with x=5
    assert!(!log.borrow().contains(&(1, 5)), "stale rhs closure ran: {:?}", log.borrow());
    drop(o_t2);
}

// D5b: bind main recomputed twice / debug assert
#[test]
fn d5b_bind_main_twice() {
    let st = IncrState::new();
    let s = st.var(1i32);
    let t1 = s.map(|x| *x + 0);
    let t2 = t1.map(|x| *x + 0);
    let o_t2 = t2.observe();
    st.stabilise();
    let t2c = t2.clone();
    let b = s.bind(move |_| t2c.clone());
    let count = Rc::new(Cell::new(0));
    let c2 = count.clone();
    let after = b.map(move |x| { c2.set(c2.get() + 1); *x });
    let o = after.observe();
    st.stabilise();
    assert_eq!(o.value(), 1);
    count.set(0);
    s.set(5);
    st.stabilise();
    assert_eq!(o.value(), 5);
    assert_eq!(count.get(), 1);
    drop(o_t2);
}

// D6: node created and dropped in bind closure, then height adjustment of that bind
#[test]
fn d6_dangling_rhs_node() {
    let st = IncrState::new();
    let a = st.var(1i32);
    let deep = a.map(|x| *x).map(|x| *x).map(|x| *x).map(|x| *x);
    let sel = st.var(false);
    let st2 = st.weak();
    let a2 = a.clone();
    let inner = a.bind(move |_| {
        let _tmp = st2.constant(5); // created in scope, dropped immediately
        a2.map(|x| *x)
    });
    let deep2 = deep.clone();
    let inner2 = inner.clone();
    // outer bind whose rhs is sometimes `inner`'s lhs ... force a height adjustment of inner's lhs_change
    let c = st.var(0i32);
    let deepc = deep.clone();
    let lhs_sw = sel.bind(move |&b| if b { deepc.clone() } else { c.watch() });
    let inner_b = lhs_sw.bind(move |_| { let _t = st.constant(1); inner2.clone() });
    let _ = deep2;
    let o = inner_b.observe();
    let stt = o.state().upgrade().unwrap();
    stt.stabilise();
    sel.set(true);
    stt.stabilise();
    assert_eq!(o.value(), 1);
}

// D7: spurious Changed when second observer added
#[test]
fn d7_spurious_changed() {
    let st = IncrState::new();
    let v = st.var(1i32);
    let m = v.map(|x| *x);
    let o1 = m.observe();
    let log = Rc::new(RefCell::new(vec![]));
    let l2 = log.clone();
    o1.subscribe(move |u| l2.borrow_mut().push(u.cloned()));
    st.stabilise();
    st.stabilise();
    let o2 = m.observe();
    st.stabilise();
    println!("{:?}", log.borrow());
    assert_eq!(&*log.borrow(), &[Update::Initialised(1)]);
    drop(o2);
}

// D2: unsubscribe increments
#[test]
fn d2_unsubscribe_then_resubscribe_count() {
    // observable only through internal counters; skip
}

// D3: set_max_height_allowed
#[test]
fn d3_max_height() {
    let st = IncrState::new_with_height(10);
    st.set_max_height_allowed(20);
    let v = st.var(0i32);
    let mut n = v.watch();
    // var height 1; chain of 19 maps -> height 20
    for _ in 0..19 { n = n.map(|x| *x + 1); }
    let o = n.observe();
    st.stabilise();
    assert_eq!(o.value(), 19);
}
#[test]
fn d3_shrink() {
    let st = IncrState::new_with_height(50);
    let v = st.var(0i32);
    let o = v.map(|x| *x).observe();
    st.stabilise();
    st.set_max_height_allowed(20);
    st.stabilise();
    assert_eq!(o.value(), 0);
}

// D10: unsubscribe inside own handler
#[test]
fn d10_unsubscribe_in_handler() {
    let st = IncrState::new();
    let v = st.var(1i32);
    let o = Rc::new(v.observe());
    let tok: Rc<Cell<Option<SubscriptionToken>>> = Rc::new(Cell::new(None));
    let tok2 = tok.clone();
    let ws = st.weak();
    let t = o.subscribe(move |_u| {
        if let Some(t) = tok2.take() { ws.unsubscribe(t); }
    });
    tok.set(Some(t));
    st.stabilise();
}
#[test]
fn d10_subscribe_in_handler() {
    let st = IncrState::new();
    let v = st.var(1i32);
    let o = v.observe();
    let m = v.map(|x| *x);
    let m2 = m.clone();
    let done = Rc::new(Cell::new(false));
    m.on_update(move |_u| {
        if !done.replace(true) { m2.on_update(|_| {}); }
    });
    let o2 = m.observe();
    st.stabilise();
    drop((o, o2));
}
