"""Developer aid: print the extracted MIR of functions matching a regex. python3 -m rules.dump <regex> [config]"""
import sys
from . import engine
from .facts import rv_repr, op_repr, Place, short_path


HIDE_TRACING = True


def dump(F, out=sys.stdout):
    print("fn %s   [%s]  args=%d" % (F.path, F.span, F.arg_count), file=out)
    for i, l in sorted(F.locals.items()):
        if l.get("name") or i <= F.arg_count:
            print("   let _%d: %s  // %s" % (i, l["ty"], l.get("name", "")), file=out)
    for b in F.blocks:
        print(" bb%d%s:" % (b["id"], " (cleanup)" if b["cleanup"] else ""), file=out)
        for s in b["stmts"]:
            if HIDE_TRACING and any("tracing" in m for m in s.get("macros", [])):
                continue
            if s["k"] == "assign":
                print("    %r = %s   // %s %s" % (Place(s["dst"]), rv_repr(s["rv"]), s["span"].rsplit("/", 1)[-1],
                                                  ",".join(m.rsplit("::", 1)[-1] for m in s.get("macros", []))), file=out)
            elif s["k"] == "setdiscr":
                print("    discr(%r) = %s" % (Place(s["dst"]), s["variant"]), file=out)
        t = b["term"]
        m = ",".join(x.rsplit("::", 1)[-1] for x in t.get("macros", []))
        if HIDE_TRACING and any("tracing" in x for x in t.get("macros", [])):
            print("    ..tracing.. %s -> %s" % (t["k"], t.get("target", t.get("targets"))), file=out)
        elif t["k"] == "call":
            print("    %r = call %s(%s) -> %s unwind %s  // %s %s" % (
                Place(t["dst"]), short_path(t.get("resolved") or t.get("callee") or t.get("callee_ty")),
                ", ".join(op_repr(a) for a in t["args"]), t["target"], t["unwind"], t["span"].rsplit("/", 1)[-1], m), file=out)
        elif t["k"] == "switch":
            print("    switch %s %s otherwise %s  // %s" % (op_repr(t["on"]), t["targets"], t["otherwise"], m), file=out)
        elif t["k"] == "drop":
            print("    drop %r -> %s" % (Place(t["place"]), t["target"]), file=out)
        elif t["k"] == "assert":
            print("    assert(%s == %s) %s -> %s" % (op_repr(t["cond"]), t["expected"], t["msg"][:30], t["target"]), file=out)
        else:
            print("    %s %s" % (t["k"], t.get("target", "")), file=out)


if __name__ == "__main__":
    cfg = sys.argv[2] if len(sys.argv) > 2 else "dbg"
    p = engine.load_program(cfg)
    for F in p.find(sys.argv[1]):
        dump(F)
        print()
