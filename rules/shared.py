"""Rule instances shared between properties (each property registers them under its own rule id)."""
from . import q
from .cfg import DefUse, origins
from .guards import overlapping_pairs
from .pdom import unexcused_path, bool_source, callee_matches
from .facts import strip_generics, op_place

# ---------------------------------------------------------------------------------------------
# RCB: overlapping RefCell guards on the same field of possibly-aliased nodes

# (function suffix, baseA, baseB) -> reason the two objects are provably distinct
DISTINCT = {
    ("Node::add_parent", "arg1", "arg3"): "child and parent of one edge (graph is acyclic)",
    ("ErasedNode>::remove_parent", "arg1", "arg3"): "child and parent of one edge",
    ("ErasedNode>::remove_parent", "arg1", "arg1.parents"): "a node and an element of its parents list",
    ("ErasedNode>::expert_swap_children_except_in_kind", "arg1", "arg2"): "parent and its child #1",
    ("ErasedNode>::expert_swap_children_except_in_kind", "arg1", "arg4"): "parent and its child #2",
}
MAY_ALIAS_NOTE = {
    ("ErasedNode>::expert_swap_children_except_in_kind", "arg2", "arg4"):
        "child1 and child2 are the same node when an expert node has duplicate dependencies",
    ("ErasedNode>::remove_parent", "arg3", "arg1.parents"):
        "the removed parent and the last parent are the same node for duplicate inputs",
}


def rcb_alias(ctx, prog, R, only_fn_suffix=None, floor=None):
    n = 0
    for F in prog.fns.values():
        if F.crate != "incremental":
            continue
        if only_fn_suffix and not F.path.endswith(only_fn_suffix):
            continue
        for a, b in overlapping_pairs(prog, F):
            n += 1
            ctx.site(R, F, "%r <-> %r" % (a, b))
            key = None
            for (suf, x, y), why in DISTINCT.items():
                if F.path.endswith(suf) and {a.base, b.base} == {x, y}:
                    key = (suf, x, y)
            inst = "%s:%s/%s" % (a.field.rsplit(".", 1)[-1], *sorted([a.base, b.base]))
            if key:
                ctx.ok(R, inst, DISTINCT[key])
            else:
                note = ""
                for (suf, x, y), why in MAY_ALIAS_NOTE.items():
                    if F.path.endswith(suf) and {a.base, b.base} == {x, y}:
                        note = " (" + why + ")"
                ctx.fail(R, inst, "two guards on %s are alive at once (at least one RefMut) on objects not "
                         "known to be distinct%s: RefCell double borrow" % (a.field, note),
                         fn=F, span=b.call.span)
    if floor is not None:
        ctx.floor(R, n, floor)
    return n


# ---------------------------------------------------------------------------------------------
# PDOM-sched instances: a staleness-making write is followed by a scheduling action

SCHED_EXCUSE = {
    "ErasedNode>::is_necessary": 0,
    "ErasedNode>::is_in_recompute_heap": 1,
    "ErasedNode>::is_stale": 0,
    "ErasedNode>::needs_to_be_computed": 0,
}


def sched_after(ctx, R, prog, F, inst, source_blocks, sink_names=("RecomputeHeap::insert",),
                excuse=None, extra_sinks=()):
    """Every normal path from each source block to `return` passes a sink call or an excused edge."""
    ex = dict(SCHED_EXCUSE)
    if excuse:
        ex.update(excuse)
    sinks = {t.bb for t in q.calls_in(F, *sink_names)} | set(extra_sinks)
    du = DefUse(F)
    ok = True
    for sb in source_blocks:
        ctx.site(R, F, "%s source bb%d sinks %s" % (inst, sb, sorted(sinks)))
        if sb in sinks:
            continue
        p = unexcused_path(F, sb, sinks, ex, du)
        if p is not None:
            ok = False
            ctx.fail(R, inst, "after the staleness-making write (bb%d) a path reaches the end of the "
                     "function without %s and without a necessity/heap-membership guard: the node is "
                     "stale but never scheduled" % (sb, "/".join(sink_names)), fn=F,
                     span=F.blocks[sb]["term"].get("span"), path=q.fmt_path(F, [sb] + p))
    if ok:
        ctx.ok(R, inst)
    return ok


def changed_at_stamp_unconditional(ctx, prog, R):
    """maybe_change_value_manual(did_change = true) records changed_at := stabilisation_num on EVERY path: the
    stamp is what `is_stale_with_respect_to_a_child` compares when a dependant becomes necessary again later, so
    it must not depend on whether the node has parents or handlers right now."""
    from . import q
    from .cfg import DefUse
    from .effects import writes_of
    from .expr import expr, show
    M = ctx.need_fn(R, q.NODE + "maybe_change_value_manual")
    if M is None:
        return
    du = DefUse(M)
    c = M.cfg()
    ws = [a for a in writes_of(prog, "incremental::node::Node.changed_at") if a.fn.path == M.path]
    if not ws:
        ctx.missing(R, "changed_at store in maybe_change_value_manual")
        return
    for a in ws:
        extra = []
        gated = False
        for s_, can in c.controlling_switches(a.bb):
            os_ = q.switch_operand_origins(M, s_, du)
            if any(o.kind == "arg" and o.what == 3 for o in os_):
                gated = True
                continue
            extra.append(show(expr(M, M.blocks[s_]["term"]["on"], du))[:80])
        ctx.site(R, M, "bb%d changed_at store controlled by did_change%s" % (a.bb, (" and " + "; ".join(extra)) if extra else ""))
        if gated and not extra:
            ctx.ok(R, "stamp-unconditional")
        else:
            ctx.fail(R, "stamp-unconditional", "the changed_at stamp of a changed node also depends on %s: a node that "
                     "changes while it has no parents/handlers keeps an old stamp, and a dependant linked later is "
                     "judged up to date (lost update)" % ("; ".join(extra) or "something other than did_change"),
                     fn=M, span=a.span)


EXPERT_FLAG_WRITERS = {
    # field -> {(root function suffix, value)}: the only places a flag may change, with the value stored
    "force_stale": {("kind::expert::ExpertNode::make_stale", "1"), ("kind::expert::ExpertNode::add_child_edge", "1"),
                    ("kind::expert::ExpertNode::pop_child_edge", "1"),
                    ("<incremental::node::Node as incremental::node::ErasedNode>::expert_remove_dependency", "1"),
                    ("kind::expert::ExpertNode::before_main_computation", "0")},
    "will_fire_all_callbacks": {("kind::expert::ExpertNode::before_main_computation", "replace"),
                                ("kind::expert::ExpertNode::observability_change", "1")},
    "num_invalid_children": {("kind::expert::ExpertNode::incr_invalid_children", "increment"),
                             ("kind::expert::ExpertNode::decr_invalid_children", "decrement"),
                             ("kind::expert::ExpertNode::observability_change", "0")},
}


def expert_flag_writers(ctx, prog, R, fields=None):
    """Who may write the expert node's bookkeeping flags, and which value. `force_stale = true` anywhere else
    (e.g. when the node becomes unobservable) makes every per-key node recompute although nothing changed;
    a missing reset of num_invalid_children makes a healthy node invalid."""
    from .cfg import DefUse
    from .effects import writes_of
    from .expr import expr, show
    from .facts import strip_generics
    n = 0
    for field, allowed in sorted(EXPERT_FLAG_WRITERS.items()):
        if fields and field not in fields:
            continue
        seen = set()
        for a in writes_of(prog, "incremental::kind::expert::ExpertNode." + field):
            n += 1
            v = show(expr(a.fn, a.site.args[1], DefUse(a.fn))) if a.kind == "set" and len(a.site.args) > 1 else a.kind
            root = strip_generics(a.fn.root)
            ctx.site(R, a.fn, "bb%d %s := %s" % (a.bb, field, v))
            hit = [k for k in allowed if root.endswith(k[0]) and k[1] == v]
            inst = "flag:%s:%s=%s" % (field, a.fn.short, v)
            if hit:
                seen.add(hit[0])
                ctx.ok(R, inst)
            else:
                ctx.fail(R, inst, "ExpertNode.%s is set to %s in %s, which is not one of the audited writers: the node "
                         "is recomputed (or keeps/loses its invalid-children count) at a moment the expert protocol does "
                         "not prescribe" % (field, v, a.fn.short), fn=a.fn, span=a.span)
        for k in sorted(allowed - seen):
            ctx.fail(R, "flag:%s:missing:%s=%s" % (field, k[0].rsplit("::", 1)[-1], k[1]), "the audited store %s := %s in %s "
                     "is gone" % (field, k[1], k[0]), kind="anchor")
    ctx.floor(R, n, 5 if fields else 10)


def every_parent_notified(ctx, prog, R):
    """maybe_change_value_manual delivers child_changed to EVERY live parent of a changed node (when asked to):
    whether the parent is already queued only decides the heap insertion. Expert parents fill their result from
    that notification (per-edge on_change)."""
    from . import q
    from .cfg import DefUse
    from .loops import elem_loops, uncovered_iteration
    from .expr import expr, mentions
    M = ctx.need_fn(R, q.NODE + "maybe_change_value_manual")
    if M is None:
        return
    du = DefUse(M)
    c = M.cfg()
    sinks = {t.bb for t in q.calls_in(M, "ErasedNode>::child_changed", "ErasedNode::child_changed")}
    if len(sinks) < 2:
        ctx.missing(R, "child_changed calls in maybe_change_value_manual (loop + first parent)")
        return
    # edges taken when run_child_changed (arg 4) is false are excused
    ex = set()
    for b in M.blocks:
        t = b["term"]
        if t["k"] == "switch":
            os_ = q.switch_operand_origins(M, b["id"], du)
            if os_ and all(o.kind == "arg" and o.what == 4 for o in os_ if o.kind != "via"):
                for x in c.succ[b["id"]]:
                    if c.edge_values(b["id"], x) == [0]:
                        ex.add((b["id"], x))
    loops = [L for L in elem_loops(M, du)
             if mentions(expr(M, L.advance_call.args[0], du), lambda x: x[0] == "field" and str(x[2][-1]).endswith("parents"))]
    ctx.site(R, M, "parent loops %s, child_changed blocks %s" % ([L.header for L in loops], sorted(sinks)))
    if not loops:
        ctx.missing(R, "loop over parents in maybe_change_value_manual")
        return
    bad = None
    for L in loops:
        p = uncovered_iteration(M, L, sinks, {"Weak::upgrade": 0}, du, extra_avoid_edges=ex)
        if p is not None:
            bad = p
    if bad is not None:
        ctx.fail(R, "notify-every-parent", "an iteration over the parents of a changed node can skip child_changed for a "
                 "live parent (for example because the parent is already in the recompute heap): an expert parent misses "
                 "the per-edge callback and keeps the old value for that edge", fn=M, path=q.fmt_path(M, bad))
    else:
        ctx.ok(R, "notify-every-parent")


def staleness_tables(ctx, prog, R):
    """The predicates every scheduling decision rests on, as decision tables: is_stale per kind, the edge test, and
    needs_to_be_computed = is_necessary && is_stale."""
    from . import q, dtab
    from .expr import mentions
    F = ctx.need_fn(R, q.NODE_IMPL + "is_stale")
    if F is not None:
        syms = [dtab.Sym("kindopt", lambda e: e[0] == "call" and e[1].endswith("Node::kind"), {0: "None", 1: "Some"}),
                dtab.Sym("kind", lambda e: e[0] == "field" and e[1][0] == "call" and e[1][1].endswith("Node::kind"),
                         dtab.enum_domain(prog, "incremental::kind::Kind")),
                dtab.Sym("never", lambda e: e[0] == "call" and e[1].endswith("::is_never") and mentions(
                    e, lambda x: x[0] == "field" and str(x[2][-1]).endswith("recomputed_at")), {0: "computed", 1: "never"}, "bool"),
                dtab.Sym("force", dtab.is_field_get("force_stale"), {0: "no", 1: "forced"}, "bool")]
        tb = dtab.table(F, syms, [], path_sensitive=True, record_returns=True)
        CHILD = "ret(is_stale_with_respect_to_a_child(arg1))"
        n = 0
        for (ko, kind, never, force), res in sorted(tb.items()):
            got = dtab.summarize(res)
            n += 1
            if ko == "None":
                want = ["ret(0)"]                       # an invalid node is never stale
            elif kind == "Var":
                want = None
                good = len(got) == 1 and got[0].startswith("ret(gt(set_at(") and "recomputed_at" in got[0]
            elif kind == "Constant":
                want = ["ret(1)"] if never == "never" else ["ret(0)"]
                if got == ["ret(is_never(get(arg1.recomputed_at)))"]:
                    got = want
            elif kind == "Expert":
                want = ["ret(1)"] if (force == "forced" or never == "never") else [CHILD]
            else:
                want = ["ret(1)"] if never == "never" else [CHILD]
            if want is not None:
                good = got == want
            ctx.site(R, F, "is_stale(%s,%s,%s,%s) -> %s" % (ko, kind, never, force, got))
            inst = "is_stale:%s/%s/%s/%s" % (ko, kind, never, force)
            if good:
                ctx.ok(R, inst)
            else:
                ctx.fail(R, inst, "is_stale for (%s, kind %s, %s, force_stale %s) gives %s, specified %s: a node that must "
                         "be recomputed is judged up to date (or the reverse)" % (ko, kind, never, force, got,
                                                                                  want or "set_at > recomputed_at"), fn=F)
        ctx.floor(R, n, 100)
    for name, want, why in (
            ("edge_is_stale", ["ret(gt(get(arg1.changed_at), get(recomputed_at(arg2))))"], "child.changed_at > parent.recomputed_at"),
            ("needs_to_be_computed", ["ret(0)", "ret(is_stale(arg1))"], "is_necessary() && is_stale()")):
        G = ctx.need_fn(R, q.NODE_IMPL + name)
        if G is None:
            continue
        tb = dtab.table(G, [], [], path_sensitive=True, record_returns=True)
        got = sorted({x for v in tb.values() for x in dtab.summarize(v)})
        ctx.site(R, G, "%s -> %s" % (name, got))
        if got == want:
            ctx.ok(R, "pred:" + name)
        else:
            ctx.fail(R, "pred:" + name, "%s yields %s, specified %s (%s)" % (name, got, want, why), fn=G)
    # the per-child test inside is_stale_with_respect_to_a_child: child.changed_at > self.recomputed_at (C06.DATA-gate
    # checks the same comparison; kept there)


def necessity_table(ctx, prog, R):
    """is_necessary = has parents || has observers || force_necessary - the definition every necessity transition uses."""
    from . import q, dtab
    from .expr import mentions
    F = ctx.need_fn(R, q.NODE_IMPL + "is_necessary")
    if F is None:
        return
    emp = lambda fld: (lambda e: e[0] == "call" and e[1].endswith("::is_empty") and mentions(
        e, lambda x: x[0] == "field" and str(x[2][-1]).endswith(fld)))
    syms = [dtab.Sym("parents", emp("parents"), {0: "some", 1: "none"}, "bool"),
            dtab.Sym("observers", emp("observers"), {0: "some", 1: "none"}, "bool")]
    tb = dtab.table(F, syms, [], path_sensitive=True, record_returns=True)
    for (pa, ob), res in sorted(tb.items()):
        got = dtab.summarize(res)
        want = ["ret(get(arg1.force_necessary))"] if (pa == "none" and ob == "none") else ["ret(1)"]
        ctx.site(R, F, "is_necessary(parents %s, observers %s) -> %s" % (pa, ob, got))
        inst = "is_necessary:%s/%s" % (pa, ob)
        if got == want:
            ctx.ok(R, inst)
        else:
            ctx.fail(R, inst, "is_necessary with (parents: %s, observers: %s) gives %s, specified %s" % (pa, ob, got, want), fn=F)
    ctx.floor(R, len(tb), 4)
