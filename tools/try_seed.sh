#!/bin/bash
# Apply a seeded change to /repo, run every quick check, undo the change. Usage: tools/try_seed.sh <patch.diff>
set -u
cd "$(dirname "$0")/.."
patch=$(realpath "$1")
git -C /repo apply "$patch" || { echo "patch does not apply"; exit 2; }
trap 'git -C /repo checkout -- . ; git -C /repo clean -fdq -- tests incremental-map/tests 2>/dev/null' EXIT
for p in $(python3 -c "import json;[print(json.loads(l)['id']) for l in open('properties.jsonl')]"); do
  out=$(./check $p --configs dbg,rel 2>&1); rc=$?
  if [ $rc -ne 0 ]; then
    echo "== $p rc=$rc"
    echo "$out" | grep -E "rule C[0-9]+\." | sed 's/  function.*instance/ instance/' | head -8
  fi
done
echo "done"
