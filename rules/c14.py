"""C14 — expert nodes with dynamic dependencies (structural clauses)."""
from . import q
from .cfg import DefUse, origins
from .effects import counter_effects, writes_of, accesses_of
from .facts import op_const_int
from .expr import expr, show, mentions
from .pdom import unexcused_path, excused_edges
from .shared import rcb_alias, sched_after
from .usercalls import user_calls

EXPLANATION = (
    "Decided clause of C14: edge callbacks are run on the *parent* end of an edge (role provenance of the "
    "receiver of ExpertNode::run_edge_callback) and Edge::on_change tolerates a child without a value; "
    "num_invalid_children goes up only in propagate_invalidity_helper, down in expert_remove_dependency, "
    "and is zeroed when the node stops being observed; duplicate children never cause two live RefMut "
    "guards; the fire-all latch and force_stale follow the specified table; make_stale / add / remove "
    "dependency and invalidate schedule the node or propagate invalidity on every path.")
NOT_DECIDED = "Equality of the expert node's value with the reference combinators over all histories."
ASSUMPTIONS = ["role table: child_changed(self=parent), add_parent_without_adjusting_heights(parent_ref=parent)"]

F_INV = "incremental::kind::expert::ExpertNode.num_invalid_children"
KIND_PASS = ("incremental::node::Node::kind",)


def sign_invalid_children(ctx, prog):
    R = "C14.SIGN-invalid-children"
    ctx.rule(R, "num_invalid_children: +1 only in incr_invalid_children <- propagate_invalidity_helper; "
                "-1 only in decr_invalid_children <- expert_remove_dependency; set 0 in observability_change(false)")
    spec = {q.EXPERT + "incr_invalid_children": "+", q.EXPERT + "decr_invalid_children": "-",
            q.EXPERT + "observability_change": "const:0"}
    effs = counter_effects(prog, F_INV)
    seen = set()
    for a, s in effs:
        ctx.site(R, a.fn, "bb%d %s %s" % (a.bb, a.kind, s))
        want = spec.get(a.fn.path)
        if want is None:
            ctx.fail(R, "writer:" + a.fn.short, "unexpected writer of num_invalid_children", fn=a.fn, span=a.span)
        elif want != s:
            ctx.fail(R, "sign:" + a.fn.name, "%s changes num_invalid_children by '%s', specified '%s'"
                     % (a.fn.name, s, want), fn=a.fn, span=a.span)
        else:
            ctx.ok(R, "sign:" + a.fn.name, s)
        seen.add(a.fn.path)
    for k in spec:
        if k not in seen:
            ctx.missing(R, "writer " + k)
    callers = {q.EXPERT + "incr_invalid_children": q.NODE_IMPL + "propagate_invalidity_helper",
               q.EXPERT + "decr_invalid_children": q.NODE_IMPL + "expert_remove_dependency"}
    n = len(effs)
    for callee, caller in callers.items():
        F = ctx.need_fn(R, callee)
        if F is None:
            continue
        cs = prog.callers(F)
        if not cs:
            ctx.missing(R, "call of " + callee)
        for t in cs:
            n += 1
            ctx.site(R, t.fn, "bb%d call %s" % (t.bb, F.name))
            if t.fn.path != caller:
                ctx.fail(R, "caller:" + F.name, "%s called from %s, specified caller is %s" %
                         (F.name, t.fn.short, caller.rsplit("::", 1)[-1]), fn=t.fn, span=t.span)
            else:
                ctx.ok(R, "caller:" + F.name)
    # the decrement is taken exactly when the removed child is invalid
    F = prog.fn(q.NODE_IMPL + "expert_remove_dependency")
    if F is not None:
        for t in q.calls_in(F, "ExpertNode::decr_invalid_children"):
            g = q.guarded_by_call(prog, F, t.bb, ("ErasedNode>::is_valid",))
            okg = any([v for x in can for v in F.cfg().edge_values(s, x)] == [0] for s, can, o in g)
            if okg:
                ctx.ok(R, "guard:decr")
            else:
                ctx.fail(R, "guard:decr", "decr_invalid_children is not guarded by !edge_child.is_valid()",
                         fn=F, span=t.span)
    ctx.floor(R, n, 5)


ROLE_PARENT = {
    q.NODE_IMPL + "child_changed": 1,
    q.NODE_IMPL + "add_parent_without_adjusting_heights": 3,
}


def prov_edge_owner(ctx, prog):
    R = "C14.PROV-edge-owner"
    ctx.rule(R, "the ExpertNode receiving run_edge_callback(child_index) is kind() of the *parent* of the "
                "edge (child_index indexes the parent's children)")
    REC = prog.fn(q.EXPERT + "run_edge_callback")
    if REC is None:
        ctx.missing(R, "ExpertNode::run_edge_callback")
        return
    cs = prog.callers(REC)
    for t in cs:
        F = t.fn
        ctx.site(R, F, "bb%d run_edge_callback" % t.bb)
        role = ROLE_PARENT.get(F.path)
        if role is None:
            ctx.fail(R, "site:" + F.short, "run_edge_callback called from a function without a role table entry",
                     fn=F, span=t.span)
            continue
        os_ = [o for o in origins(F, t.arg_place(0), DefUse(F), extra_pass=KIND_PASS + (
            "core::ops::deref::Deref::deref",)) if o.kind != "via"]
        args = sorted({o.what for o in os_ if o.kind == "arg"})
        other = [o for o in os_ if o.kind != "arg"]
        if args == [role] and not other:
            ctx.ok(R, "site:" + F.name, "receiver derives from arg%d" % role)
        else:
            ctx.fail(R, "site:" + F.name, "edge callback index belongs to the parent (arg%d) but the "
                     "ExpertNode is taken from %s" % (role, ", ".join(map(repr, os_))), fn=F, span=t.span)
        # the index passed is the child_index parameter (arg 2 in both functions)
        ios = [o for o in origins(F, t.arg_place(1), DefUse(F)) if o.kind != "via"]
        if not (len(ios) == 1 and ios[0].kind == "arg" and ios[0].what == (3 if role == 1 else 2)):
            ctx.fail(R, "index:" + F.name, "run_edge_callback index is not the child_index parameter: %s" % ios,
                     fn=F, span=t.span)
        else:
            ctx.ok(R, "index:" + F.name)
    ctx.floor(R, len(cs), 2)


def guard_value(ctx, prog):
    R = "C14.GUARD-value"
    ctx.rule(R, "Edge::on_change calls the user callback only when the child has a value (no unwrap of "
                "value_as_ref): callbacks are delivered right after linking, before the child ran")
    F = ctx.need_fn(R, "<incremental::kind::expert::Edge<T> as incremental::kind::expert::ExpertEdge>::on_change")
    if F is None:
        return
    du = DefUse(F)
    ucs = [u for u in user_calls(prog) if u.site.fn.path == F.path]
    if not ucs:
        ctx.missing(R, "user call of Edge.on_change in Edge::on_change")
        return
    bad = []
    for t in F.calls():
        if q.callee_is(t, "core::option::Option::unwrap", "core::option::Option::expect"):
            os_ = origins(F, t.arg_place(0), du)
            if q.origin_calls(os_, "Incremental::value_as_ref", "ErasedNode::value_as_any", "value_as_ref"):
                bad.append(t)
    for u in ucs:
        ctx.site(R, F, "bb%d user call %s" % (u.site.bb, u.field))
        g = q.guarded_by_call(prog, F, u.site.bb, ("value_as_ref", "value_as_any"), du)
        if bad:
            ctx.fail(R, "on_change", "value_as_ref() is unwrapped before the edge callback: a dependency "
                     "added on a not-yet-computed child panics", fn=F, span=bad[0].span)
        elif not g:
            ctx.fail(R, "on_change", "the edge callback is not guarded by the child having a value",
                     fn=F, span=u.site.span)
        else:
            ctx.ok(R, "on_change")


def rcb_swap(ctx, prog):
    R = "C14.RCB-swap"
    ctx.rule(R, "expert_swap_children_except_in_kind never holds the index cells of child1 and child2 at once")
    rcb_alias(ctx, prog, R, only_fn_suffix="ErasedNode>::expert_swap_children_except_in_kind", floor=2)


def _const_sets(prog, F, field):
    out = []
    for a in writes_of(prog, field):
        if a.fn.path != F.path or a.kind not in ("set", "replace"):
            continue
        v = op_const_int(a.site.args[1]) if len(a.site.args) > 1 else None
        out.append((a, v))
    return out


def dtab_latch(ctx, prog):
    R = "C14.DTAB-latch"
    ctx.rule(R, "observability_change(false) sets the fire-all latch and zeroes the invalid counter; "
                "before_main_computation returns Err(Invalid) under num_invalid_children > 0, else clears "
                "force_stale and consumes the latch; run_edge_callback is a no-op while the latch is set")
    n = 0
    OC = ctx.need_fn(R, q.EXPERT + "observability_change")
    if OC is not None:
        c = OC.cfg()
        for field, val in (("ExpertNode.will_fire_all_callbacks", 1), ("ExpertNode.num_invalid_children", 0)):
            ws = _const_sets(prog, OC, "incremental::kind::expert::" + field)
            n += len(ws)
            for a, v in ws:
                ctx.site(R, OC, "bb%d %s=%s" % (a.bb, field, v))
            good = False
            for a, v in ws:
                if v != val:
                    continue
                # control dependent on arg2 (is_now_observable) == false
                for s, can in c.controlling_switches(a.bb):
                    os_ = q.switch_operand_origins(OC, s)
                    if any(o.kind == "arg" and o.what == 2 for o in os_):
                        vals = [x for t in can for x in c.edge_values(s, t)]
                        if vals == [0]:
                            good = True
            if good:
                ctx.ok(R, "reset:" + field)
            else:
                ctx.fail(R, "reset:" + field, "observability_change(false) does not store %s into %s" %
                         (val, field), fn=OC)
        # the reset is reached on every path with is_now_observable == false
    BM = ctx.need_fn(R, q.EXPERT + "before_main_computation")
    if BM is not None:
        c = BM.cfg()
        fs = _const_sets(prog, BM, "incremental::kind::expert::ExpertNode.force_stale")
        lt = _const_sets(prog, BM, "incremental::kind::expert::ExpertNode.will_fire_all_callbacks")
        n += len(fs) + len(lt)
        for a, v in fs + lt:
            ctx.site(R, BM, "bb%d %s=%s" % (a.bb, a.field.rsplit(".", 1)[-1], v))
        if [v for _, v in fs] != [0]:
            ctx.fail(R, "bmc:force_stale", "before_main_computation must clear force_stale exactly once", fn=BM)
        else:
            ctx.ok(R, "bmc:force_stale")
        if [(a.kind, v) for a, v in lt] != [("replace", 0)]:
            ctx.fail(R, "bmc:latch", "before_main_computation must consume the latch with replace(false)", fn=BM)
        else:
            ctx.ok(R, "bmc:latch")
            # on_change calls are control dependent on the replaced value being true
            oc = q.calls_in(BM, "ExpertEdge::on_change")
            n += len(oc)
            if not oc:
                ctx.missing(R, "on_change call in before_main_computation")
            for t in oc:
                ctx.site(R, BM, "bb%d on_change" % t.bb)
                g = q.guarded_by_call(prog, BM, t.bb, ("core::cell::Cell::replace",))
                if not g:
                    ctx.fail(R, "bmc:fire-all", "on_change of every child is not guarded by the latch", fn=BM,
                             span=t.span)
                else:
                    ctx.ok(R, "bmc:fire-all")
        # Err(Invalid) guarded by num_invalid_children.get() > 0 ; Ok otherwise; stores unreachable on Err path
        gets = [a for a in accesses_of(prog, F_INV) if a.fn.path == BM.path and a.kind == "get"]
        n += len(gets)
        if len(gets) != 1:
            ctx.fail(R, "bmc:invalid", "before_main_computation must read num_invalid_children once", fn=BM)
        else:
            ctx.site(R, BM, "bb%d num_invalid_children.get" % gets[0].bb)
            # find the comparison `Gt(x, 0)` fed by that get
            cmp_ok = False
            for s in BM.stmts():
                rv = s.rv or {}
                if "bin" in rv and rv["bin"][0] in ("Gt", "Ne", "Ge") and op_const_int(rv["bin"][2]) in (0, 1):
                    os_ = origins(BM, q.op_place(rv["bin"][1]), DefUse(BM))
                    if any(o.site is gets[0].site for o in os_ if o.site is not None):
                        if rv["bin"][0] == "Ge" and op_const_int(rv["bin"][2]) != 1:
                            continue
                        if rv["bin"][0] in ("Gt", "Ne") and op_const_int(rv["bin"][2]) != 0:
                            continue
                        cmp_ok = (s.bb, s.dst.local)
            if not cmp_ok:
                ctx.fail(R, "bmc:invalid", "no `num_invalid_children > 0` test found", fn=BM)
            else:
                # the force_stale clear must be on the false edge of that test
                sb = cmp_ok[0]
                t = BM.blocks[sb]["term"]
                okb = False
                if t["k"] == "switch" and fs:
                    for s2, can in c.controlling_switches(fs[0][0].bb):
                        if s2 == sb and [x for tt in can for x in c.edge_values(sb, tt)] == [0]:
                            okb = True
                if okb:
                    ctx.ok(R, "bmc:invalid")
                else:
                    ctx.fail(R, "bmc:invalid", "force_stale is cleared although invalid children exist "
                             "(or the test is inverted)", fn=BM)
    RE = ctx.need_fn(R, q.EXPERT + "run_edge_callback")
    if RE is not None:
        oc = q.calls_in(RE, "ExpertEdge::on_change")
        n += len(oc)
        if not oc:
            ctx.missing(R, "on_change call in run_edge_callback")
        for t in oc:
            ctx.site(R, RE, "bb%d on_change" % t.bb)
            g = q.guarded_by_call(prog, RE, t.bb, ("core::cell::Cell::get",))
            good = False
            for s, can, o in g:
                fields = {f for f in __import__("rules.effects", fromlist=["x"]).resolve_fields(
                    prog, RE, o.site.arg_place(0))}
                if any(f.endswith("will_fire_all_callbacks") for f in fields):
                    from .pdom import bool_source
                    src = bool_source(RE, RE.blocks[s]["term"]["on"])
                    neg = src[1] if src else False
                    vals = [x for tt in can for x in RE.cfg().edge_values(s, tt)]
                    # latch false => run. value 0 (not negated) or non-zero (negated)
                    if (not neg and vals == [0]) or (neg and vals and 0 not in vals):
                        good = True
            if good:
                ctx.ok(R, "rec:latch")
            else:
                ctx.fail(R, "rec:latch", "run_edge_callback does not skip while will_fire_all_callbacks is set",
                         fn=RE, span=t.span)
    ctx.floor(R, n, 7)


def pdom_sched(ctx, prog, R="C14.PDOM-sched"):
    ctx.rule(R, "make_stale / add_dependency / remove_dependency set force_stale and then queue the node "
                "(modulo is_necessary / is_in_recompute_heap / AlreadyStale); expert::invalidate propagates")
    n = 0
    F = ctx.need_fn(R, q.NODE_IMPL + "expert_make_stale")
    if F is not None:
        src = [t.bb for t in q.calls_in(F, "ExpertNode::make_stale")]
        n += len(src)
        if not src:
            ctx.missing(R, "ExpertNode::make_stale call")
        sched_after(ctx, R, prog, F, "make_stale", src, excuse={"ExpertNode::make_stale": 0})
        # the staleness mark itself depends only on validity and kind: a make_stale on a node that is currently
        # unnecessary (or already queued) must still be remembered for when it becomes necessary again
        du = DefUse(F)
        c = F.cfg()
        for bb in src:
            bad = []
            for sb, _can in c.controlling_switches(bb):
                e = expr(F, F.blocks[sb]["term"]["on"], du)
                while e[0] in ("un", "discr"):
                    e = e[2] if e[0] == "un" else e[1]
                txt = show(e)
                if e[0] == "call" and (e[1].endswith("is_valid") or e[1].endswith("::kind")):
                    continue
                if "kind(" in txt and "is_necessary" not in txt and "is_in_recompute_heap" not in txt:
                    continue
                bad.append(txt)
            ctx.site(R, F, "bb%d ExpertNode::make_stale controlled by %s" % (bb, bad or "validity/kind only"))
            if bad:
                ctx.fail(R, "make_stale:unconditional", "the force_stale mark in expert_make_stale is only set when %s: "
                         "make_stale on a node that is not necessary right now is forgotten, and the node keeps its old "
                         "value when it is observed again" % " and ".join(bad)[:300], fn=F)
            else:
                ctx.ok(R, "make_stale:unconditional")
    MS = ctx.need_fn(R, q.EXPERT + "make_stale")
    if MS is not None:
        ws = _const_sets(prog, MS, "incremental::kind::expert::ExpertNode.force_stale")
        n += len(ws)
        for a, v in ws:
            ctx.site(R, MS, "bb%d force_stale=%s" % (a.bb, v))
        if [v for _, v in ws] != [1]:
            ctx.fail(R, "make_stale:set", "ExpertNode::make_stale must set force_stale to true", fn=MS)
        else:
            # after the store the function returns MakeStale::Ok (discriminant 1)
            a = ws[0][0]
            rets = []
            for s in MS.stmts():
                if s.dst is not None and s.dst.local == 0 and s.bb in MS.cfg().reach({a.bb}):
                    rv = s.rv or {}
                    if "agg" in rv and isinstance(rv["agg"], dict):
                        rets.append(rv["agg"].get("variant"))
            if rets == ["Ok"]:
                ctx.ok(R, "make_stale:set")
            else:
                ctx.fail(R, "make_stale:set", "after setting force_stale the result must be MakeStale::Ok, "
                         "found %s" % rets, fn=MS)
    F = ctx.need_fn(R, q.NODE_IMPL + "expert_add_dependency")
    if F is not None:
        src = [t.bb for t in q.calls_in(F, "ExpertNode::add_child_edge")]
        n += len(src)
        if not src:
            ctx.missing(R, "add_child_edge call")
        sched_after(ctx, R, prog, F, "add_dependency", src)
        # and the new edge is linked when the node is necessary
        sched_after(ctx, R + "", prog, F, "add_dependency:link", src, sink_names=("ErasedNode>::state_add_parent",))
    ACE = ctx.need_fn(R, q.EXPERT + "add_child_edge")
    if ACE is not None:
        ok = False
        for G in prog.with_closures(ACE):
            ws = _const_sets(prog, G, "incremental::kind::expert::ExpertNode.force_stale")
            n += len(ws)
            if [v for _, v in ws] == [1]:
                ok = True
        if ok:
            ctx.ok(R, "add_child_edge:force_stale")
        else:
            ctx.fail(R, "add_child_edge:force_stale", "add_child_edge must set force_stale", fn=ACE)
    F = ctx.need_fn(R, q.NODE_IMPL + "expert_remove_dependency")
    if F is not None:
        ws = _const_sets(prog, F, "incremental::kind::expert::ExpertNode.force_stale")
        n += len(ws)
        if [v for _, v in ws] != [1]:
            ctx.fail(R, "remove_dependency:force_stale", "expert_remove_dependency must set force_stale", fn=F)
        else:
            sched_after(ctx, R, prog, F, "remove_dependency", [ws[0][0].bb])
            sched_after(ctx, R, prog, F, "remove_dependency:unlink", [ws[0][0].bb],
                        sink_names=("ErasedNode>::expert_remove_child",))
    F = ctx.need_fn(R, "incremental::state::expert::invalidate")
    if F is not None:
        src = [t.bb for t in q.calls_in(F, "ErasedNode>::invalidate_node")]
        n += len(src)
        if not src:
            ctx.missing(R, "invalidate_node call in expert::invalidate")
        sched_after(ctx, R, prog, F, "invalidate", src, sink_names=("State::propagate_invalidity",), excuse={})
    ctx.floor(R, n, 6)


def pdom_link_callback(ctx, prog):
    R = "C14.PDOM-link-callback"
    ctx.rule(R, "linking a child to a parent (add_parent_without_adjusting_heights) consults the parent's kind on "
                "every path and runs the expert edge callback of the new edge whenever the parent is an expert node - "
                "also when the child only just became necessary (it may hold a current value and never recompute)")
    F = ctx.need_fn(R, q.NODE_IMPL + "add_parent_without_adjusting_heights")
    if F is None:
        return
    du = DefUse(F)
    c = F.cfg()
    calls = q.calls_in(F, "ExpertNode::run_edge_callback")
    if not calls:
        ctx.missing(R, "run_edge_callback call")
        return
    # switches on kind(parent): Option discriminant and Kind discriminant
    ksw = []
    for b in F.blocks:
        t = b["term"]
        if t["k"] == "switch":
            e = expr(F, t["on"], du)
            if e[0] == "discr" and mentions(e, lambda x: x[0] == "call" and x[1].endswith("Node::kind") and x[2] == (("arg", 3),)):
                ksw.append(b["id"])
    ctx.site(R, F, "kind(parent) switches %s; run_edge_callback %s" % (ksw, [t.bb for t in calls]))
    if not ksw:
        ctx.fail(R, "link-callback", "the edge callback is not selected by the parent's kind", fn=F, kind="anchor")
        return
    p = c.path([0], c.exits, avoid=set(ksw))
    if p is not None:
        ctx.fail(R, "link-callback", "a path links the child without looking at the parent's kind, so an expert parent "
                 "never gets the on_change callback of this new dependency (e.g. a child that just became necessary but "
                 "already has an up-to-date value)", fn=F, path=q.fmt_path(F, p))
        return
    # on the Expert arm the call is unconditional
    ctrl = [s_ for s_, can in c.controlling_switches(calls[0].bb) if s_ not in ksw]
    extra = []
    for s_ in ctrl:
        e = expr(F, F.blocks[s_]["term"]["on"], du)
        extra.append(show(e)[:60])
    if extra:
        ctx.fail(R, "link-callback", "run_edge_callback on the new edge is additionally conditioned on %s" % extra, fn=F,
                 span=calls[0].span)
    else:
        ctx.ok(R, "link-callback")


def data_swap(ctx, prog):
    from .c11 import data_swap as ds
    ds(ctx, prog, "C14.DATA-swap")


for _f, _id in ((sign_invalid_children, "C14.SIGN-invalid-children"), (prov_edge_owner, "C14.PROV-edge-owner"),
                (guard_value, "C14.GUARD-value"), (rcb_swap, "C14.RCB-swap"), (dtab_latch, "C14.DTAB-latch"),
                (pdom_sched, "C14.PDOM-sched"), (pdom_link_callback, "C14.PDOM-link-callback"), (data_swap, "C14.DATA-swap")):
    _f.rule_id = _id

def wmw_flags(ctx, prog):
    R = "C14.WMW-flags"
    ctx.rule(R, "ExpertNode.force_stale / will_fire_all_callbacks / num_invalid_children are written only by the audited "
                "functions with the audited values")
    from .shared import expert_flag_writers
    expert_flag_writers(ctx, prog, R)


def pdom_notify(ctx, prog):
    R = "C14.PDOM-notify"
    ctx.rule(R, "a changed node delivers child_changed to every live parent (queued or not)")
    from .shared import every_parent_notified
    every_parent_notified(ctx, prog, R)


wmw_flags.rule_id = "C14.WMW-flags"
pdom_notify.rule_id = "C14.PDOM-notify"

RULES = [sign_invalid_children, prov_edge_owner, guard_value, rcb_swap, dtab_latch, pdom_sched, pdom_link_callback, data_swap, wmw_flags, pdom_notify]

# control signature of the bookkeeping effects this property depends on (rules/ctrlsig.py)
from .ctrlsig import make_rule as _ctrl_rule  # noqa: E402
RULES.append(_ctrl_rule("C14"))
