"""C17 — incremental-map does work proportional to the change (structural clauses)."""
from . import mapops, q
from .usercalls import user_calls

EXPLANATION = (
    "Decided clause of C17: (GUARD-full) the full-pass helpers filter_map_collect / initial_fold run only in "
    "the arm guarded by `no previous round` (or an empty input for incr_filter_mapi), and the incremental arm "
    "contains no full pass; (WMC-user) inside the incremental-map crate user functions are invoked only from "
    "the diff callbacks, the guarded full pass, or the frozen adapter closures; (PDOM-pair, shared with C15) the "
    "previous input is stored after every round, otherwise every round is an initial round; (rewire Unequal "
    "row, shared with C16) a changed value touches only that key's node.")
NOT_DECIDED = "Invocation counts per key and round (runtime quantities)."
ASSUMPTIONS = ["C18: symmetric_fold visits only differing keys"]

ALLOWED_USER_SITES = {
    mapops.IM + "incr_filter_mapi::{closure#0}::{closure#0}": "diff callback of incr_filter_mapi",
    mapops.IM + "incr_map::{closure#0}": "adapter closure given to incr_filter_mapi",
    mapops.IM + "incr_mapi::{closure#0}": "adapter closure", mapops.IM + "incr_filter_map::{closure#0}": "adapter closure",
    mapops.WO + "with_old_input_output::{closure#0}": "the operator's round function",
    mapops.WO + "with_old_input_output2::{closure#0}": "the operator's round function",
    "incremental_map::btree_map::merge_shared_impl::{closure#1}": "merge callback",
    "incremental_map::im_rc::merge_shared_impl::{closure#1}": "merge callback",
    "incremental_map::im_rc::IncrOrdMap::incr_partition::{closure#0}": "adapter closure",
}


def guard_full(ctx, prog):
    R = "C17.GUARD-full"
    ctx.rule(R, "full passes only under the initial/empty guard; the incremental arm folds the diff")
    mapops.filter_mapi(ctx, prog, R, full_pass_only=True)
    mapops.unordered_fold(ctx, prog, R, full_pass_only=True)
    # call sites of the full-pass helpers
    n = 0
    for name, allowed in (("SymmetricMapMap::filter_map_collect", {mapops.IM + "incr_filter_mapi::{closure#0}",
                                                                   "<alloc::rc::Rc<alloc::collections::btree::map::BTreeMap<K, V>> as incremental_map::symmetric_fold::SymmetricMapMap<K, V>>::filter_map_collect"}),
                          ("UnorderedFold::initial_fold", {mapops.IM + "incr_unordered_fold_with::{closure#0}"}),
                          ("SymmetricFoldMap::nonincremental_fold", {"incremental_map::UnorderedFold::initial_fold",
                                                                     "<alloc::rc::Rc<alloc::collections::btree::map::BTreeMap<K, V>> as incremental_map::symmetric_fold::SymmetricFoldMap<K, V>>::nonincremental_fold",
                                                                     "<incremental_map::ClosureFold<M, K, V, R, FAdd, FRemove, FUpdate, FInitial> as incremental_map::UnorderedFold<M, K, V, R>>::initial_fold"})):
        for t in prog.call_sites(lambda t: q.callee_is(t, name)):
            if t.fn.crate != "incremental_map":
                continue
            n += 1
            ctx.site(R, t.fn, "bb%d %s" % (t.bb, name.rsplit("::", 1)[-1]))
            if t.fn.path not in allowed:
                ctx.fail(R, "site:%s:%s" % (name.rsplit("::", 1)[-1], t.fn.short), "full pass %s is called from %s"
                         % (name.rsplit("::", 1)[-1], t.fn.short), fn=t.fn, span=t.span)
            else:
                ctx.ok(R, "site:%s:%s" % (name.rsplit("::", 1)[-1], t.fn.short))
    ctx.floor(R, n, 3)


def wmc_user(ctx, prog):
    R = "C17.WMC-user"
    ctx.rule(R, "user functions are invoked only from diff callbacks, the guarded full pass or frozen adapters")
    n = 0
    for u in user_calls(prog):
        F = u.site.fn
        if F.crate != "incremental_map":
            continue
        n += 1
        ctx.site(R, F, "bb%d calls %s" % (u.site.bb, u.recv_ty[:50]))
        okk = F.path in ALLOWED_USER_SITES or any(F.path.startswith(p) for p in (
            "<incremental_map::PlainUnorderedFold", "<incremental_map::UpdateUnorderedFold", "<incremental_map::ClosureFold",
            "<incremental_map::MapOperator", "<incremental_map::FilterMapOperator", "<incremental_map::im_rc::PartitionMapi",
            "incremental_map::ClosureFold",
            "<alloc::collections::btree::map::BTreeMap<K, V> as incremental_map::symmetric_fold::SymmetricMapMap<K, V>>::filter_map_collect",
            "incremental_map::im_rc::<impl incremental_map::symmetric_fold::SymmetricMapMap<K, V> for im_rc::ord::map::OrdMap<K, V>>::filter_map_collect",
            "incremental_map::symmetric_fold::SymmetricDiffMap::symmetric_fold_with_inverse",
            "incremental_map::symmetric_fold::SymmetricDiffMapOwned::symmetric_fold_owned",
            "<incremental_map::symmetric_fold::MergeOnceWith", "incremental_map::UnorderedFold::initial_fold",
            "incremental_map::btree_map::incr_filter_mapi_generic_btree_map::{closure#2}::{closure#0}::{closure#1}",
            "incremental_map::im_rc::incr_filter_mapi_ordmap::{closure#2}::{closure#0}::{closure#1}",
            mapops.MERGE_IMPLS["btree"] + "::{closure#0}::{closure#0}", mapops.MERGE_IMPLS["ordmap"] + "::{closure#0}::{closure#0}",
        ))
        if okk:
            ctx.ok(R, "site:" + F.short)
        else:
            ctx.fail(R, "site:" + F.short, "a user function is invoked in %s, which is not a diff callback / guarded "
                     "full pass / adapter in the frozen table" % F.short, fn=F, span=u.site.span, kind="anchor")
    ctx.floor(R, n, 20)


def pair(ctx, prog):
    R = "C17.PDOM-pair"
    ctx.rule(R, "the previous input is stored after every round")
    mapops.pdom_pair(ctx, prog, R)


def unequal_row(ctx, prog):
    R = "C17.DTAB-unequal"
    ctx.rule(R, "per-key operators: an Unequal element only makes that key's node stale")
    mapops.rewire(ctx, prog, R, only=("Unequal",))


for _f, _id in ((guard_full, "C17.GUARD-full"), (wmc_user, "C17.WMC-user"), (pair, "C17.PDOM-pair"),
                (unequal_row, "C17.DTAB-unequal")):
    _f.rule_id = _id

def wmw_force_stale(ctx, prog):
    R = "C17.WMW-force-stale"
    ctx.rule(R, "per-key (expert) nodes are marked stale only by make_stale / add / remove dependency: no other store of "
                "force_stale = true (e.g. on becoming unobservable), which would recompute every key after a re-observe")
    from .shared import expert_flag_writers
    expert_flag_writers(ctx, prog, R, fields=("force_stale",))


wmw_force_stale.rule_id = "C17.WMW-force-stale"

def sib_merge_cmp(ctx, prog):
    """incr_merge calls the user function once per key: the two diff streams are merged by the plain key comparison,
    so a key changed on both sides is one `Both` element (C18.SIB-folds, reported here too)."""
    from .engine import run_relabelled
    from .c18 import folds as f
    run_relabelled(ctx, prog, f, "C18.SIB-folds", "C17.SIB-merge-cmp")


sib_merge_cmp.rule_id = "C17.SIB-merge-cmp"

def dtab_rewire_full(ctx, prog):
    R = "C17.DTAB-rewire"
    ctx.rule(R, "per-key operators: the whole rewiring table (the lhs-change node returns (), so it never wakes the "
                "per-key nodes of unchanged keys)")
    mapops.rewire(ctx, prog, R)


dtab_rewire_full.rule_id = "C17.DTAB-rewire"

RULES = [guard_full, wmc_user, pair, unequal_row, wmw_force_stale, sib_merge_cmp, dtab_rewire_full]

# control signature of the bookkeeping effects this property depends on (rules/ctrlsig.py)
from .ctrlsig import make_rule as _ctrl_rule  # noqa: E402
RULES.append(_ctrl_rule("C17"))
