#!/usr/bin/env python3
"""Summarise a try_patch log: per patch the set of rules that reported (with instance count)."""
import re, sys
cur = None; out = {}
for l in open(sys.argv[1]):
    m = re.match(r"^== (\S+): (\w+)", l)
    if m:
        cur = m.group(1); out[cur] = [m.group(2), {}]; continue
    m = re.match(r"^   (C\d+\.[\w-]+) \| (.*?) \| (.*?) \[", l)
    if m and cur:
        out[cur][1].setdefault(m.group(1), []).append(m.group(3))
for k, (st, rs) in out.items():
    print("%-40s %-9s %s" % ("/".join(k.split("/")[-3:]) if k.endswith("patch.diff") else k.rsplit("/", 1)[-1], st, "; ".join("%s x%d (%s)" % (r, len(i), i[0][:40]) for r, i in sorted(rs.items()))))
