#!/bin/bash
# usage: verify_seed.sh CNN  -> writes /tmp/seed-CNN/SEED/verify.json
id=$1; W=/tmp/seed-$id; cd $W || exit 2
export CARGO_TARGET_DIR=$W/target CARGO_NET_OFFLINE=true
demo=$(python3 -c "import json;print(json.load(open('$W/SEED/meta.json')).get('demo_path','tests/seed_demo.rs'))")
case "$demo" in incremental-map/*) pkg="-p incremental-map --features im";; *) pkg="-p incremental";; esac
# ensure the change is applied exactly as patch.diff
git checkout -q -- src incremental-map/src incremental-macros/src 2>/dev/null
git apply SEED/patch.diff || { echo '{"error":"patch does not apply"}' > SEED/verify.json; exit 1; }
mkdir -p $(dirname $demo); cp SEED/demo.rs $demo
cargo test --offline $pkg --test seed_demo > SEED/demo_with.log 2>&1; with_rc=$?
mv $demo /tmp/seed_demo_$id.rs
cargo test --workspace --offline --no-fail-fast > SEED/suite_with.log 2>&1; suite_rc=$?
mv /tmp/seed_demo_$id.rs $demo
git apply -R SEED/patch.diff
cargo test --offline $pkg --test seed_demo > SEED/demo_without.log 2>&1; without_rc=$?
git apply SEED/patch.diff
passed=$(grep -E "^test result: ok" SEED/suite_with.log | awk '{s+=$4} END {print s+0}')
echo "{\"demo_with_change_rc\": $with_rc, \"suite_with_change_rc\": $suite_rc, \"suite_tests_passed\": $passed, \"demo_without_change_rc\": $without_rc}" > SEED/verify.json
cat SEED/verify.json
