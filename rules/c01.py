"""C01 — observed values equal a from-scratch evaluation (structural clauses)."""
import re
from . import q
from .callgraph import reachable
from .cfg import DefUse, origins
from .effects import writes_of, accesses_of
from .expr import expr, show, mentions
from .facts import op_place, op_const_int
from .loops import elem_loops, uncovered_iteration
from .pdom import unexcused_path, excused_edges
from .shared import sched_after, SCHED_EXCUSE
from .usercalls import user_calls

EXPLANATION = (
    "Decided clause of C01: (SIB-children) for every node kind, each input whose value the recompute arm "
    "reads is enumerated as a child by try_fold_children with indices 0..n-1 and n equals "
    "Kind::initial_num_children; (PDOM-sched) every write that makes a needed node stale - var set_at, "
    "changed_at in maybe_change_value_manual / the bind change detector / invalidate_node, force_stale, "
    "becoming necessary, linking a parent, propagating invalidity - is followed on every path by a "
    "scheduling action, modulo the necessity / heap-membership / staleness predicates; (DOM-stamp) "
    "recomputed_at is stamped before any user function of the node runs; (LATCH) caches fed by "
    "child_changed notifications, which are only delivered while linked, are re-synchronised when the node "
    "becomes necessary again and consumed by recompute.")
NOT_DECIDED = "Equality of observed values with a from-scratch evaluation over all histories."
ASSUMPTIONS = ["entries of Node.parents are alive (upgrade None edge is infeasible, appendix C.1)",
               "ArrayFold reads and enumerates the same `children` vector (checked by field identity)"]

KIND = "incremental::kind::Kind::"


def _variant_and_field(fields):
    """(variant, payload field) from a provenance field chain such as
    [Option::Some.0, Kind::Map3.0, Map3Node.two] -> ('Map3', 'two')."""
    variant = None
    tail = []
    for f in fields:
        if f.startswith(KIND):
            variant = f[len(KIND):].split(".", 1)[0]
            rest = f[len(KIND):].split(".", 1)[1]
            tail = [] if rest.isdigit() else [rest]
        elif variant is not None and f.startswith("incremental::"):
            tail.append(f.rsplit(".", 1)[-1])
    # drop wrapper fields (Incr.node)
    tail = [x for x in tail if x not in ("node",)]
    return variant, ".".join(tail)


def _reads(prog):
    """variant -> set of payload fields whose value the recompute path reads."""
    out = {}
    sites = []
    F = prog.fn(q.NODE_IMPL + "recompute_one")
    if F is None:
        return None, []
    du = DefUse(F)
    for t in F.calls():
        if q.callee_is(t, "ErasedNode>::value_as_any", "ErasedNode::value_as_any", "Incremental::value_as_ref",
                       "value_as_ref"):
            os_ = origins(F, t.arg_place(0), du, extra_pass=q.NODE_IDENTITY)
        elif q.callee_is(t, "Node::copy_child_bindrhs"):
            os_ = origins(F, t.arg_place(1), du, extra_pass=q.NODE_IDENTITY)
        else:
            continue
        for o in os_:
            if o.kind == "via":
                continue
            v, f = _variant_and_field(o.fields)
            if v:
                out.setdefault(v, set()).add(f)
                sites.append((F, t.bb, v, f))
    return out, sites


def _children(prog):
    """variant -> list of (index, payload field) enumerated by try_fold_children."""
    T = prog.fn(q.NODE + "try_fold_children")
    if T is None:
        return None, []
    du = DefUse(T)
    out = {}
    sites = []
    for t in T.calls():
        if not q.callee_is(t, "FnMut::call_mut"):
            continue
        pl = t.arg_place(1)
        d = du.single_def(pl.local) if pl is not None else None
        if d is None or d[0] != "assign" or "agg" not in (d[1].rv or {}):
            continue
        ops = d[1].rv["ops"]
        if len(ops) != 3:
            continue
        idx = op_const_int(ops[1])
        os_ = origins(T, op_place(ops[2]), du, extra_pass=q.NODE_IDENTITY)
        for o in os_:
            if o.kind == "via":
                continue
            v, f = _variant_and_field(o.fields)
            if v:
                out.setdefault(v, []).append((idx, f))
                sites.append((T, t.bb, v, idx, f))
    return out, sites


def _arity(prog):
    K = prog.fn("incremental::kind::Kind::initial_num_children")
    if K is None:
        return None
    sw = K.blocks[0]["term"]
    if sw["k"] != "switch":
        return None
    out = {}
    for val, tb in sw["targets"]:
        name = prog.variant_by_discr("incremental::kind::Kind", val)
        cv = None
        for s in K.block_stmts(tb):
            if s.dst is not None and s.dst.local == 0 and s.rv and "use" in s.rv:
                cv = op_const_int(s.rv["use"])
        out[name] = cv
    return out


# what the property text says each kind reads (the oracle; written from the combinator definitions)
SPEC_CHILDREN = {
    "Map": ["input"], "MapRef": ["input"], "MapWithOld": ["input"],
    "Map2": ["one", "two"], "Map3": ["one", "two", "three"], "Map4": ["one", "two", "three", "four"],
    "Map5": ["one", "two", "three", "four", "five"], "Map6": ["one", "two", "three", "four", "five", "six"],
    "BindLhsChange": ["bind.lhs"], "BindMain": ["lhs_change", "bind.rhs"],
}


def sib_children(ctx, prog):
    R = "C01.SIB-children"
    ctx.rule(R, "per Kind variant: inputs read by recompute_one are a subset of the children enumerated by "
                "try_fold_children; child indices are 0..n-1 in order; n == initial_num_children; the "
                "enumeration matches the combinator's definition")
    reads, rs = _reads(prog)
    kids, ks = _children(prog)
    ar = _arity(prog)
    if reads is None or kids is None or ar is None:
        ctx.missing(R, "recompute_one / try_fold_children / initial_num_children")
        return
    for F, bb, v, f in rs:
        ctx.site(R, F, "bb%d reads %s.%s" % (bb, v, f))
    for F, bb, v, i, f in ks:
        ctx.site(R, F, "bb%d child %s #%s = %s" % (bb, v, i, f))
    for v, want in SPEC_CHILDREN.items():
        got = kids.get(v, [])
        got_sorted = sorted(set(got), key=lambda x: (x[0] is None, x[0]))
        fields = [f for _, f in got_sorted]
        idxs = [i for i, _ in got_sorted]
        if fields != want or idxs != list(range(len(want))):
            ctx.fail(R, "children:" + v, "try_fold_children enumerates %s for %s, the definition has %s at "
                     "indices 0..%d: a change of an unlisted input never re-queues the node" %
                     (got_sorted, v, want, len(want) - 1), fn=prog.fn(q.NODE + "try_fold_children"))
        else:
            ctx.ok(R, "children:" + v)
        r = reads.get(v, set())
        missing = sorted(x for x in r if x not in fields)
        if missing:
            ctx.fail(R, "reads:" + v, "recompute_one reads %s of %s which is not a registered child" % (missing, v),
                     fn=prog.fn(q.NODE_IMPL + "recompute_one"))
        else:
            ctx.ok(R, "reads:" + v, str(sorted(r)))
        # value-reading kinds read *every* child except the ordering-only lhs_change
        expect_read = [x for x in want if not (v == "BindMain" and x == "lhs_change")]
        if v not in ("MapRef",) and sorted(r) != sorted(expect_read):
            ctx.fail(R, "reads-all:" + v, "recompute_one reads %s of %s, expected %s" % (sorted(r), v, expect_read),
                     fn=prog.fn(q.NODE_IMPL + "recompute_one"))
        n = ar.get(v)
        if n != len(want):
            ctx.fail(R, "arity:" + v, "initial_num_children(%s) = %s, enumeration has %d" % (v, n, len(want)),
                     fn=prog.fn("incremental::kind::Kind::initial_num_children"))
        else:
            ctx.ok(R, "arity:" + v)
    # MapRef reads its input through value_as_any/value_as_ref (projection of the input's value)
    for path in (q.NODE_IMPL + "value_as_any", "<incremental::node::Node as incremental::node::Incremental<R>>::value_as_ref"):
        F = ctx.need_fn(R, path)
        if F is None:
            continue
        du = DefUse(F)
        hit = False
        for t in F.calls():
            if q.callee_is(t, "value_as_any"):
                for o in origins(F, t.arg_place(0), du, extra_pass=q.NODE_IDENTITY):
                    v, f = _variant_and_field(o.fields)
                    if v == "MapRef" and f == "input":
                        hit = True
                        ctx.site(R, F, "bb%d reads MapRef.input" % t.bb)
        if hit:
            ctx.ok(R, "reads:MapRef:" + F.name)
        else:
            ctx.fail(R, "reads:MapRef:" + F.name, "map_ref value no longer projects MapRefNode.input", fn=F)
    # variants without value children
    for v in ("Constant", "Var"):
        if kids.get(v):
            ctx.fail(R, "children:" + v, "%s must have no children" % v, fn=prog.fn(q.NODE + "try_fold_children"))
    # ArrayFold / Expert enumerate their dynamic vectors
    AF = ctx.need_fn(R, "<incremental::kind::array_fold::ArrayFold<F, I, R> as incremental::kind::KindTrait>::compute")
    AI = ctx.need_fn(R, "<incremental::kind::array_fold::ArrayFold<F, I, R> as incremental::kind::KindTrait>::iter_children_packed")
    AL = ctx.need_fn(R, "<incremental::kind::array_fold::ArrayFold<F, I, R> as incremental::kind::KindTrait>::children_len")
    for G, what in ((AF, "compute"), (AI, "iter_children_packed"), (AL, "children_len")):
        if G is None:
            continue
        acc = [a for a in accesses_of(prog, "incremental::kind::array_fold::ArrayFold.children")]
        used = False
        for H in prog.with_closures(G):
            for s in H.stmts():
                rv = s.rv or {}
                if "ref" in rv and any(f.endswith("ArrayFold.children") for f in q.Place(rv["ref"]).fields()):
                    used = True
        ctx.site(R, G, "uses ArrayFold.children: %s" % used)
        if used:
            ctx.ok(R, "fold:" + what)
        else:
            ctx.fail(R, "fold:" + what, "ArrayFold::%s no longer works on `children`" % what, fn=G)
    ctx.floor(R, len(rs) + len(ks), 50)


def _extends_with_all_parents(prog, F, site, du):
    """The iterator handed to Vec::extend walks Node.parents through length-preserving adaptors only, except
    for dropping dead weak entries (filter_map(upgrade))."""
    from .expr import walk, closure_paths
    e = expr(F, site.args[1], du)
    if not mentions(e, lambda x: x[0] == "field" and x[2] and str(x[2][-1]).endswith("parents")):
        return False
    okc = ("::map", "::filter_map", "::iter", "::into_iter", "::borrow", "::deref", "::as_slice", "::as_ref")
    for x in walk(e):
        if x[0] == "call" and not x[1].endswith(okc):
            return False
    okg = ("Weak::upgrade", "::weak", "Rc::downgrade", "::clone", "::deref", "::packed", "::as_ref")
    for cp in closure_paths(e):
        G = prog.fn(cp)
        if G is None:
            return False
        for t in G.calls():
            if not any((t.callee or "").split("::<")[0].endswith(k) or q.callee_is(t, k.lstrip(":")) for k in okg):
                return False
    return True


def pdom_sched(ctx, prog):
    R = "C01.PDOM-sched"
    ctx.rule(R, "every staleness-making write is followed by a scheduling action on every path, modulo the "
                "guards is_necessary / is_in_recompute_heap / is_stale / needs_to_be_computed")
    n = 0
    # 1. var write
    F = ctx.need_fn(R, q.VAR + "did_set_var_while_not_stabilising")
    if F is not None:
        src = [a.bb for a in writes_of(prog, "incremental::var::Var.set_at") if a.fn.path == F.path]
        n += len(src)
        if not src:
            ctx.missing(R, "set_at write")
        sched_after(ctx, R, prog, F, "var:set_at", src)
    # 2. maybe_change_value_manual
    F = ctx.need_fn(R, q.NODE + "maybe_change_value_manual")
    if F is not None:
        du = DefUse(F)
        c = F.cfg()
        src = [a for a in writes_of(prog, "incremental::node::Node.changed_at") if a.fn.path == F.path]
        n += len(src)
        loops = [l for l in elem_loops(F, du)]
        sinks = {t.bb for t in q.calls_in(F, "RecomputeHeap::insert")}
        first = {t.bb for t in q.calls_in(F, "ErasedNode>::parent_iter_can_recompute_now")}
        ctx.site(R, F, "changed_at stores %s, loops %s, insert %s, direct %s" % (
            [a.bb for a in src], loops, sorted(sinks), sorted(first)))
        if len(src) != 1 or len(loops) != 1 or not sinks or not first:
            ctx.fail(R, "change:shape", "maybe_change_value_manual: expected one changed_at store, one parent loop, "
                     "an insert and a parent_iter_can_recompute_now call", fn=F, kind="anchor")
        else:
            L = loops[0]
            if not c.dominates(src[0].bb, L.header):
                ctx.fail(R, "change:loop", "the parent loop is not preceded by the changed_at store", fn=F)
            ex = {"ErasedNode>::is_in_recompute_heap": 1, "Weak::upgrade": 0}
            p = uncovered_iteration(F, L, sinks, ex, du)
            if p is not None:
                ctx.fail(R, "change:loop", "a parent can be skipped: an iteration of the parent loop neither inserts "
                         "the parent nor finds it queued", fn=F, path=q.fmt_path(F, p))
            else:
                ctx.ok(R, "change:loop")
            # tail: the first parent
            exits = [x for x in L.none_targets]
            ex2 = {"ErasedNode>::is_in_recompute_heap": 1, "Weak::upgrade": 0, "Iterator::next": 0}
            exed = excused_edges(F, ex2, du)
            # the loop's own next() switch is not an excuse for the tail
            exed = {e for e in exed if e[0] != L.switch_bb}
            p = c.path(exits, c.exits, avoid=first, avoid_edges=exed)
            if p is not None:
                ctx.fail(R, "change:first", "the first parent is neither recomputed directly nor inserted",
                         fn=F, path=q.fmt_path(F, p))
            else:
                ctx.ok(R, "change:first")
            # did_change == false does nothing; did_change == true reaches the store
            sw0 = [s for s, can in c.controlling_switches(src[0].bb)
                   if any(o.kind == "arg" and o.what == 3 for o in q.switch_operand_origins(F, s, du))]
            if sw0:
                ctx.ok(R, "change:gate")
            else:
                ctx.fail(R, "change:gate", "the changed_at store is not controlled by did_change", fn=F)
    # 2b. parent_iter_can_recompute_now: returns true or inserts
    F = ctx.need_fn(R, q.NODE_IMPL + "parent_iter_can_recompute_now")
    if F is not None:
        c = F.cfg()
        sinks = {t.bb for t in q.calls_in(F, "RecomputeHeap::insert")}
        trues = {s.bb for s in F.stmts() if s.dst is not None and s.dst.is_local() and s.dst.local == 0
                 and s.rv and "use" in s.rv and op_const_int(s.rv["use"]) == 1}
        n += len(sinks) + len(trues)
        ctx.site(R, F, "insert %s, return-true %s" % (sorted(sinks), sorted(trues)))
        # kind() == None (invalid parent) is excused
        ex = excused_edges(F, {"Node::kind": 0})
        p = c.path([0], c.exits, avoid=sinks | trues, avoid_edges=ex)
        if p is not None:
            ctx.fail(R, "direct:summary", "parent_iter_can_recompute_now can return false without inserting the "
                     "parent", fn=F, path=q.fmt_path(F, p))
        else:
            ctx.ok(R, "direct:summary")
    # 3. bind change detector
    F = ctx.need_fn(R, q.NODE_IMPL + "recompute_one")
    if F is not None:
        src = [a for a in writes_of(prog, "incremental::node::Node.changed_at") if a.fn.path == F.path]
        n += len(src)
        if len(src) != 1:
            ctx.fail(R, "lhs_change:shape", "expected exactly one changed_at store in recompute_one (the "
                     "BindLhsChange arm), found %d" % len(src), fn=F, kind="anchor")
        else:
            sched_after(ctx, R, prog, F, "lhs_change:changed_at", [src[0].bb],
                        sink_names=("Node::maybe_change_value",), excuse={})
        # expert Err(Invalid) arm and copy_child_bindrhs: invalidate_node followed by propagate_invalidity
        inv = q.calls_in(F, "ErasedNode>::invalidate_node")
        n += len(inv)
        sched_after(ctx, R, prog, F, "expert:invalid", [t.bb for t in inv],
                    sink_names=("State::propagate_invalidity",), excuse={})
        inr = q.calls_in(F, "invalidate_nodes_created_on_rhs")
        n += len(inr)
        if not inr:
            ctx.missing(R, "invalidate_nodes_created_on_rhs in recompute_one")
        sched_after(ctx, R, prog, F, "lhs_change:invalidate", [t.bb for t in inr],
                    sink_names=("State::propagate_invalidity",), excuse={})
    F = prog.fn(q.NODE + "copy_child_bindrhs")
    if F is None:
        # the helper has one caller; inlined into recompute_one its invalidate_node call is covered by the
        # `expert:invalid` obligation above, which then must have seen both arms
        RO = prog.fn(q.NODE_IMPL + "recompute_one")
        if RO is None or len(q.calls_in(RO, "ErasedNode>::invalidate_node")) < 2:
            ctx.missing(R, q.NODE + "copy_child_bindrhs (or its body inlined into recompute_one)")
    if F is not None:
        inv = q.calls_in(F, "ErasedNode>::invalidate_node")
        n += len(inv)
        if not inv:
            ctx.missing(R, "invalidate_node in copy_child_bindrhs")
        sched_after(ctx, R, prog, F, "bind_main:invalid", [t.bb for t in inv],
                    sink_names=("State::propagate_invalidity",), excuse={})
    # 4. invalidate_node pushes every parent
    F = ctx.need_fn(R, q.NODE_IMPL + "invalidate_node")
    if F is not None:
        du = DefUse(F)
        c = F.cfg()
        src = [a for a in writes_of(prog, "incremental::node::Node.changed_at") if a.fn.path == F.path]
        loops = elem_loops(F, du)
        from .colls import coll_ops
        pushes = {o.bb for o in coll_ops(prog, F) if o.sign == "+" and any(
            f.endswith("State.propagate_invalidity") for f in o.fields)}
        n += len(src) + len(pushes)
        ctx.site(R, F, "changed_at %s loops %s pushes %s" % ([a.bb for a in src], loops, sorted(pushes)))
        ploops = [l for l in loops if any(b in l.body for b in pushes)]
        ext = [o for o in coll_ops(prog, F) if o.method.endswith("::extend") and o.bb in pushes]
        if len(src) == 1 and not ploops and ext and _extends_with_all_parents(prog, F, ext[0].site, du):
            # `stack.extend(parents.iter().filter_map(upgrade).map(weak))`: the loop written as an iterator chain
            if c.dominates(src[0].bb, ext[0].bb) and c.path([src[0].bb], c.exits, avoid={ext[0].bb}) is None:
                ctx.ok(R, "invalidate:parents", "iterator-chain form")
            else:
                ctx.fail(R, "invalidate:parents", "the parents are not pushed on every path after the store", fn=F)
        elif len(src) != 1 or not ploops:
            ctx.fail(R, "invalidate:shape", "invalidate_node: expected a changed_at store and a loop pushing the "
                     "parents on propagate_invalidity", fn=F, kind="anchor")
        else:
            L = ploops[0]
            p = uncovered_iteration(F, L, pushes, {"Weak::upgrade": 0}, du)
            srcs = origins(F, L.advance_call.arg_place(0), du)
            from .effects import _last_local
            over_parents = any((_last_local(o.fields) or "").endswith("Node.parents") for o in srcs)
            if p is not None or not over_parents:
                ctx.fail(R, "invalidate:parents", "invalidate_node does not push every parent on the invalidity "
                         "stack", fn=F, path=q.fmt_path(F, p) if p else None)
            elif not c.path([src[0].bb], [L.header]) or c.path([src[0].bb], c.exits, avoid={L.header}):
                ctx.fail(R, "invalidate:parents", "the parent loop is not reached on every path after the store", fn=F)
            else:
                ctx.ok(R, "invalidate:parents")
    # 5. force_stale (shared with C14)
    from .c14 import pdom_sched as expert_sched
    before = len(ctx.obligations)
    expert_sched(ctx, prog, R)
    # 6. became_necessary
    F = ctx.need_fn(R, q.NODE_IMPL + "became_necessary")
    if F is not None:
        n += 1
        p = unexcused_path(F, 0, {t.bb for t in q.calls_in(F, "RecomputeHeap::insert")},
                           {"ErasedNode>::is_stale": 0}, from_successors=False)
        ctx.site(R, F, "entry -> insert under is_stale")
        if p is not None:
            ctx.fail(R, "became_necessary", "a node that becomes necessary while stale is not queued", fn=F,
                     path=q.fmt_path(F, p))
        else:
            ctx.ok(R, "became_necessary")
    # 7. state_add_parent
    F = ctx.need_fn(R, q.NODE_IMPL + "state_add_parent")
    if F is not None:
        du = DefUse(F)
        c = F.cfg()
        src = [t.bb for t in q.calls_in(F, "ErasedNode>::add_parent_without_adjusting_heights")]
        n += len(src)
        ok = sched_after(ctx, R, prog, F, "add_parent", src,
                         excuse={"ErasedNode>::edge_is_stale": 0})
        # the edge_is_stale excuse is only reachable when the parent has been computed before
        never_false = excused_edges(F, {"StabilisationNum::is_never": 1}, du)
        es = [b["id"] for b in F.blocks if b["term"]["k"] == "switch" and (lambda s: s is not None and
              q.callee_is(s[0], "ErasedNode>::edge_is_stale"))(__import__("rules.pdom", fromlist=["x"]).bool_source(F, b["term"]["on"], du))]
        if not never_false or not es:
            ctx.fail(R, "add_parent:never", "state_add_parent must queue a never-computed parent (is_never) "
                     "and otherwise test the edge (edge_is_stale)", fn=F)
        else:
            # every path to the edge_is_stale test passes the is_never == false edge
            never_sw = {e[0] for e in never_false}
            false_edges = set()
            for s in never_sw:
                for x in c.succ[s]:
                    if (s, x) not in never_false:
                        false_edges.add((s, x))
            p = c.path(src, es, avoid_edges=false_edges)
            if p is not None:
                ctx.fail(R, "add_parent:never", "the edge staleness test is reachable without the never-computed "
                         "test", fn=F, path=q.fmt_path(F, p))
            else:
                ctx.ok(R, "add_parent:never")
    # 8. State::propagate_invalidity
    F = ctx.need_fn(R, q.STATE + "propagate_invalidity")
    if F is not None:
        du = DefUse(F)
        loops = elem_loops(F, du)
        sinks = {t.bb for t in q.calls_in(F, "RecomputeHeap::insert")} | \
                {t.bb for t in q.calls_in(F, "ErasedNode>::invalidate_node")}
        n += len(sinks)
        ctx.site(R, F, "loops %s sinks %s" % (loops, sorted(sinks)))
        if not loops or len(sinks) < 2:
            ctx.fail(R, "propagate:shape", "propagate_invalidity: expected a pop loop with invalidate_node and "
                     "insert", fn=F, kind="anchor")
        else:
            p = uncovered_iteration(F, loops[0], sinks, {"ErasedNode>::is_in_recompute_heap": 1,
                                                          "Weak::upgrade": 0, "ErasedNode>::is_valid": 0}, du)
            if p is not None:
                ctx.fail(R, "propagate", "a popped valid node is neither invalidated nor queued", fn=F,
                         path=q.fmt_path(F, p))
            else:
                ctx.ok(R, "propagate")
    ctx.floor(R, n, 14)


def dom_stamp(ctx, prog):
    R = "C01.DOM-stamp"
    ctx.rule(R, "recompute_one stores recomputed_at = stabilisation_num before any user function runs")
    F = ctx.need_fn(R, q.NODE_IMPL + "recompute_one")
    if F is None:
        return
    du = DefUse(F)
    c = F.cfg()
    st = [a for a in writes_of(prog, "incremental::node::Node.recomputed_at") if a.fn.path == F.path]
    for a in st:
        ctx.site(R, F, "bb%d recomputed_at %s" % (a.bb, a.kind))
    if len(st) != 1:
        ctx.fail(R, "stamp", "expected exactly one recomputed_at store in recompute_one", fn=F, kind="anchor")
        return
    e = expr(F, st[0].site.args[1], du)
    if not mentions(e, lambda x: x[0] == "field" and x[2][-1] == "stabilisation_num"):
        ctx.fail(R, "stamp:value", "recomputed_at is set to %s, expected state.stabilisation_num" % show(e), fn=F)
    ucs = [u for u in user_calls(prog) if u.site.fn.path == F.path]
    others = [t for t in F.calls() if q.callee_is(t, "KindTrait::compute", "ArrayFold", "Node::copy_child_bindrhs",
                                                   "ExpertNode::before_main_computation")]
    bad = [u.site for u in ucs if not c.dominates(st[0].bb, u.site.bb)] + \
          [t for t in others if not c.dominates(st[0].bb, t.bb)]
    for u in ucs:
        ctx.site(R, F, "bb%d user call %s" % (u.site.bb, u.field))
    if bad:
        ctx.fail(R, "stamp", "a node function can run before recomputed_at is stamped", fn=F, span=bad[0].span)
    else:
        ctx.ok(R, "stamp")
    ctx.floor(R, len(ucs), 9)
    from .shared import changed_at_stamp_unconditional
    changed_at_stamp_unconditional(ctx, prog, R)


def latch(ctx, prog):
    R = "C01.LATCH-mapref"
    ctx.rule(R, "child_changed notifications are delivered only while linked: every kind whose child_changed "
                "arm has an effect carries a flag that is set when the node becomes (un)necessary and is consumed "
                "by recompute; a pending MapRef change is never overwritten by a later equal notification")
    CC = ctx.need_fn(R, q.NODE_IMPL + "child_changed")
    if CC is None:
        return
    # which kinds have a child_changed arm with an effect
    du = DefUse(CC)
    arms = set()
    for H in prog.with_closures(CC):
        for s in H.stmts():
            for pl in ([s.dst] if s.dst else []) + ([q.Place(s.rv["ref"])] if s.rv and "ref" in s.rv else []):
                for f in pl.fields():
                    if f.startswith(KIND):
                        arms.add(f[len(KIND):].split(".")[0])
    ctx.site(R, CC, "effectful arms %s" % sorted(arms))
    known = {"Expert", "MapRef"}
    for a in sorted(arms - known):
        ctx.fail(R, "arm:" + a, "child_changed has a new effectful arm for %s without a re-synchronisation rule" % a,
                 fn=CC, kind="anchor")
    reach_nec = reachable(prog, [q.NODE_IMPL + "became_necessary", q.NODE_IMPL + "became_unnecessary"],
                          stop={q.NODE_IMPL + "recompute_one", q.STATE + "propagate_invalidity"})
    # Expert: will_fire_all_callbacks
    ws = writes_of(prog, "incremental::kind::expert::ExpertNode.will_fire_all_callbacks")
    for a in ws:
        ctx.site(R, a.fn, "bb%d will_fire_all_callbacks %s" % (a.bb, a.kind))
    if any(a.fn.root in reach_nec and a.kind == "set" and op_const_int(a.site.args[1]) == 1 for a in ws):
        ctx.ok(R, "latch:Expert")
    else:
        ctx.fail(R, "latch:Expert", "no function reachable from became_(un)necessary sets will_fire_all_callbacks",
                 fn=CC)
    # MapRef: did_change
    FLD = "incremental::kind::map::MapRefNode.did_change"
    ws = writes_of(prog, FLD)
    rs = [a for a in accesses_of(prog, FLD) if a.fn.path == q.NODE_IMPL + "recompute_one"]
    for a in ws:
        ctx.site(R, a.fn, "bb%d did_change %s" % (a.bb, a.kind))
    if not rs:
        ctx.fail(R, "latch:MapRef:read", "recompute_one no longer reads MapRefNode.did_change", fn=CC, kind="anchor")
    resync = [a for a in ws if a.fn.root in reach_nec and a.kind == "set" and op_const_int(a.site.args[1]) == 1]
    if resync:
        ctx.ok(R, "latch:MapRef:resync")
    else:
        ctx.fail(R, "latch:MapRef:resync",
                 "MapRefNode.did_change is written only by child_changed, which is not delivered while the map_ref "
                 "node is unlinked: after the node becomes necessary again recompute uses a stale `false` and the "
                 "parents keep their old value", fn=prog.fn(q.NODE_IMPL + "became_necessary") or CC)
    cc_ws = [a for a in ws if a.fn.root == CC.path]
    bad = [a for a in cc_ws if not (a.kind == "set" and op_const_int(a.site.args[1]) == 1)]
    if not cc_ws:
        ctx.fail(R, "latch:MapRef:notify", "child_changed no longer records a projection change", fn=CC, kind="anchor")
    elif bad and resync:
        ctx.fail(R, "latch:MapRef:accumulate", "child_changed stores a computed value into did_change: a pending "
                 "`true` (set when the node became necessary) is overwritten by a later equal notification",
                 fn=CC, span=bad[0].span)
    elif not bad:
        ctx.ok(R, "latch:MapRef:accumulate")
    # recompute consumes the flag
    cons = [a for a in ws if a.fn.path == q.NODE_IMPL + "recompute_one" and a.kind in ("replace", "set")
            and op_const_int(a.site.args[1]) == 0]
    if resync:
        if cons:
            ctx.ok(R, "latch:MapRef:consume")
        else:
            ctx.fail(R, "latch:MapRef:consume", "recompute_one never clears did_change after using it", fn=CC)
    ctx.floor(R, len(ws) + len(rs), 2)


def depend_on_cutoff(ctx, prog):
    from .c06 import preserve_cutoff
    preserve_cutoff(ctx, prog, "C01.DATA-preserve-cutoff")


for _f, _id in ((sib_children, "C01.SIB-children"), (pdom_sched, "C01.PDOM-sched"), (dom_stamp, "C01.DOM-stamp"),
                (latch, "C01.LATCH-mapref"), (depend_on_cutoff, "C01.DATA-preserve-cutoff")):
    _f.rule_id = _id

def dtab_mapref(ctx, prog):
    """A map_ref node notified without an old value (its input is a map_with_old / another map_ref) must record
    `changed`; otherwise its dependants are never scheduled (lost update). Same table as C06.DTAB-mapref."""
    from .engine import run_relabelled
    from .c06 import dtab_mapref as f
    run_relabelled(ctx, prog, f, "C06.DTAB-mapref", "C01.DTAB-mapref")


dtab_mapref.rule_id = "C01.DTAB-mapref"

def dtab_staleness(ctx, prog):
    R = "C01.DTAB-staleness"
    ctx.rule(R, "is_stale per kind (Var: set_at > recomputed_at; Constant: never computed; map-like/bind: never computed "
                "|| a child changed since; Expert: also force_stale; invalid: false), edge_is_stale, needs_to_be_computed")
    from .shared import staleness_tables
    staleness_tables(ctx, prog, R)


dtab_staleness.rule_id = "C01.DTAB-staleness"

def sib_var_writes(ctx, prog):
    """A var write that is parked after the deferred-write queue was drained (or dropped) is not in the graph at the
    end of the next stabilise: the per-status table of the five writers (C08.SIB-writes), reported here too."""
    from .engine import run_relabelled
    from .c08 import sib_writes as f
    run_relabelled(ctx, prog, f, "C08.SIB-writes", "C01.SIB-var-writes")


sib_var_writes.rule_id = "C01.SIB-var-writes"

def data_arg_order(ctx, prog, R="C01.DATA-arg-order"):
    ctx.rule(R, "each map-like node hands its inputs to the user function in declaration order: the j-th argument of "
                "the mapper call in recompute_one is the value of the j-th input field (one, two, three, four, five, six)")
    F = ctx.need_fn(R, q.NODE_IMPL + "recompute_one")
    if F is None:
        return
    du = DefUse(F)
    ORDER = ["one", "two", "three", "four", "five", "six"]
    n = 0
    for u in user_calls(prog):
        if u.site.fn.path != F.path:
            continue
        mm = re.search(r"Map(\d)Node\.mapper$", u.field)
        if not mm:
            continue
        k = int(mm.group(1))
        t = u.site
        tup = expr(F, t.args[1], du) if len(t.args) > 1 else ("?",)
        names = []
        if tup[0] == "agg" and tup[1] == "tuple":
            for a in tup[2]:
                fs = [str(x[2][-1]) for x in __import__("rules.expr", fromlist=["walk"]).walk(a) if x[0] == "field"]
                names.append(fs[-1] if fs else "?")
        n += 1
        ctx.site(R, F, "Map%d mapper(%s)" % (k, ", ".join(names)))
        if names == ORDER[:k]:
            ctx.ok(R, "args:Map%d" % k)
        else:
            ctx.fail(R, "args:Map%d" % k, "the Map%d node calls its function with the inputs (%s), declared order is (%s): "
                     "a function that is not symmetric in its arguments computes a wrong value on every recompute"
                     % (k, ", ".join(names), ", ".join(ORDER[:k])), fn=F, span=t.span)
    ctx.floor(R, n, 5)


data_arg_order.rule_id = "C01.DATA-arg-order"

RULES = [sib_children, pdom_sched, dom_stamp, latch, depend_on_cutoff, dtab_mapref, dtab_staleness, sib_var_writes, data_arg_order]

# control signature of the bookkeeping effects this property depends on (rules/ctrlsig.py)
from .ctrlsig import make_rule as _ctrl_rule  # noqa: E402
RULES.append(_ctrl_rule("C01"))
