"""C12 — nothing leaks, no drop order is unsafe (structural clauses)."""
from . import q
from .cfg import DefUse, origins
from .colls import coll_ops
from .effects import writes_of, accesses_of
from .expr import expr, show, mentions
from .loops import elem_loops, uncovered_iteration
from .pdom import unexcused_path

EXPLANATION = (
    "Decided clause of C12: (TYG-strong) the set of struct/enum fields through which engine objects hold each "
    "other strongly (Rc / Box / inline / collections) is exactly the audited list of downward references "
    "(inputs of a node, handles, the observer table, the two heaps' queues, the var<->watch-node cycle), and "
    "the set of Weak fields is exactly the audited list of back-references (parents, self/state pointers, "
    "scopes, bind back-links, all state queues); a weak->strong flip, a strong->weak flip or a new unclassified "
    "field fails; (PDOM-breaker) the only strong cycle, Var.node <-> Kind::Var, has a breaker reached on every "
    "teardown path: dropping the last public Var queues the var on dead_vars or breaks the cycle at once, "
    "stabilise_end and State::destroy drain dead_vars into break_rc_cycle (the double-buffer loop exits only on "
    "an empty queue), break_rc_cycle clears Var.node, unlinking an observer removes it from all_observers, "
    "ExpertNode::drop clears its edges and closures, State::drop calls destroy.")
NOT_DECIDED = ("Release of every node under every drop permutation and absence of drop-time panics (runtime); "
               "references captured by user closures.")
ASSUMPTIONS = ["a reference cycle needs a strong field on every edge; Weak<T> never keeps T alive"]

ENGINE = {
    "incremental::node::Node", "incremental::state::State", "incremental::kind::bind::BindNode",
    "incremental::internal_observer::InternalObserver", "incremental::var::Var", "incremental::kind::expert::Edge",
    "incremental::kind::expert::ExpertNode", "incremental::kind::Kind", "incremental::incr::Incr",
    "incremental::public::Observer", "incremental::public::Var", "incremental::public::IncrState",
    "incremental::kind::expert::public::Node",
}
ENGINE_TRAITS = {
    "incremental::node::Incremental", "incremental::node::ErasedNode", "incremental::internal_observer::ErasedObserver",
    "incremental::var::ErasedVariable", "incremental::scope::BindScope", "incremental::kind::expert::ExpertEdge",
    "incremental::kind::KindTrait",
}

STRONG = {
    # field -> reason it may be strong
    "adjust_heights_heap::AdjustHeightsHeap.queues": "work queue, emptied by adjust_heights before it returns",
    "recompute_heap::RecomputeHeap.queues": "pending recomputations; emptied by every stabilise / destroy",
    "recompute_heap::RecomputeHeap.swap": "scratch queue",
    "incr::Incr.node": "user handle -> node",
    "internal_observer::InternalObserver.observing": "observer -> observed node (downward)",
    "kind::Kind::ArrayFold.0": "node -> payload (inline)",
    "kind::Kind::Var.0": "watch node -> var (one half of the audited cycle; broken by break_rc_cycle)",
    "kind::Kind::BindLhsChange.bind": "node -> bind record",
    "kind::Kind::BindMain.bind": "node -> bind record",
    "kind::Kind::BindMain.lhs_change": "bind main -> its change detector (downward input)",
    "kind::Kind::Expert.0": "node -> payload (inline)",
    "kind::array_fold::ArrayFold.children": "fold node -> inputs",
    "kind::bind::BindNode.lhs": "bind -> left-hand input",
    "kind::bind::BindNode.rhs": "bind -> current right-hand input",
    "kind::expert::Edge.child": "expert edge -> input",
    "kind::expert::ExpertNode.children": "expert node -> its edges",
    "kind::expert::public::Node.incr": "user handle",
    "kind::map::MapNode.input": "input", "kind::map::MapRefNode.input": "input", "kind::map::MapWithOld.input": "input",
    "node::Node._kind": "node -> payload (inline)",
    "public::IncrState.inner": "user handle -> state",
    "public::Observer.internal": "user handle -> observer",
    "public::Var.internal": "user handle -> var", "public::Var.watch": "user handle -> watch node",
    "state::State.all_observers": "state -> in-use observers; removed by unlink_disallowed_observers / destroy",
    "var::Var.node": "var -> watch node (other half of the audited cycle; cleared by break_rc_cycle)",
}
for _n, _fs in (("Map2Node", ("one", "two")), ("Map3Node", ("one", "two", "three")),
                ("Map4Node", ("one", "two", "three", "four")), ("Map5Node", ("one", "two", "three", "four", "five")),
                ("Map6Node", ("one", "two", "three", "four", "five", "six"))):
    for _f in _fs:
        STRONG["kind::map::%s.%s" % (_n, _f)] = "input"
for _i, _n in ((2, 2), (3, 3), (4, 4), (5, 5), (6, 6)):
    for _k in range(_n):
        STRONG["syntax::MapBuilder%d.%d" % (_i, _k)] = "builder holding user handles"
STRONG["kind::Kind::debug_ty::KindDebugTy.0"] = "borrowed reference in a Debug helper"

WEAK = {
    "incr::WeakIncr.0", "internal_observer::InternalObserver.weak_self", "kind::bind::BindNode.lhs_change",
    "kind::bind::BindNode.main", "kind::bind::BindNode.all_nodes_created_on_rhs",
    "kind::expert::public::Dependency.edge", "node::Node.parents", "node::Node.weak_self", "node::Node.weak_state",
    "node::Node.observers", "public::WeakState.inner", "scope::Scope::Bind.0",
    "state::OnlyInDebug.currently_running_node", "state::State.propagate_invalidity",
    "state::State.run_on_update_handlers", "state::State.handle_after_stabilisation", "state::State.new_observers",
    "state::State.disallowed_observers", "state::State.set_during_stabilisation", "state::State.dead_vars",
    "state::State.dead_vars_alt", "state::State.weak_self", "var::Var.state",
}


def _reach(tree, weak=False, out=None):
    """(strength, target) pairs for engine objects a field type reaches."""
    out = out if out is not None else []
    k = tree.get("k")
    if k == "adt":
        if tree["path"] in ("alloc::rc::Weak", "alloc::sync::Weak"):
            for a in tree.get("args", []):
                _reach(a, True, out)
            return out
        if tree["path"] in ENGINE:
            out.append(("weak" if weak else "strong", tree["path"]))
        for a in tree.get("args", []):
            _reach(a, weak, out)
    elif k == "dyn":
        for t in tree["traits"]:
            if t in ENGINE_TRAITS:
                out.append(("weak" if weak else "strong", "dyn " + t))
        # the type arguments of a dyn Fn(..) -> .. are signature types, not contents
    elif k in ("fnptr", "closure", "param", "prim", "fndef"):
        pass
    else:
        for a in tree.get("args", []):
            _reach(a, weak, out)
    return out


def tyg_strong(ctx, prog):
    R = "C12.TYG-strong"
    ctx.rule(R, "fields reaching engine objects: strong ones == audited downward list, Weak ones == audited "
                "back-reference list")
    strong, weak = {}, {}
    for path, a in sorted(prog.adts.items()):
        if not path.startswith("incremental::"):
            continue
        for v in a["variants"]:
            for f in v["fields"]:
                rs = _reach(f["tree"])
                if not rs:
                    continue
                name = "%s%s.%s" % (path[len("incremental::"):], ("::" + v["name"]) if a["kind"] == "Enum" else "", f["name"])
                kinds = {s for s, _ in rs}
                ctx.site(R, path, "%s: %s" % (name, sorted(set(rs))))
                if "strong" in kinds:
                    strong[name] = (rs, a.get("span"))
                if "weak" in kinds:
                    weak[name] = (rs, a.get("span"))
    skip_cfg = set()
    if prog.config == "rel":
        skip_cfg = {"state::OnlyInDebug.currently_running_node"}
    for name, (rs, span) in sorted(strong.items()):
        if name in STRONG:
            ctx.ok(R, "strong:" + name, STRONG[name])
        elif name in WEAK:
            ctx.fail(R, "flip:" + name, "%s is a back-reference that must be Weak but now holds %s strongly: the "
                     "objects form a reference cycle and are never released" % (name, sorted({t for s, t in rs if s == "strong"})),
                     fn=None, span=span)
        else:
            ctx.fail(R, "unclassified:" + name, "new field %s holds an engine object strongly; it is not in the audited "
                     "list of downward references" % name, fn=None, span=span, kind="anchor")
    for name, (rs, span) in sorted(weak.items()):
        if name in WEAK:
            ctx.ok(R, "weak:" + name)
        elif name in STRONG and name not in strong:
            ctx.fail(R, "flip-weak:" + name, "%s used to keep its target alive and is now Weak" % name, fn=None, span=span)
        elif name not in STRONG:
            ctx.fail(R, "unclassified-weak:" + name, "new Weak field %s is not classified" % name, fn=None, span=span,
                     kind="anchor")
    for name in sorted(set(STRONG) - set(strong)):
        if name in weak:
            continue
        ctx.fail(R, "gone:" + name, "audited strong field %s no longer exists (renamed?)" % name, kind="anchor")
    for name in sorted(WEAK - set(weak) - skip_cfg):
        if name in strong:
            continue
        ctx.fail(R, "gone-weak:" + name, "audited weak field %s no longer exists (renamed?)" % name, kind="anchor")
    ctx.floor(R, len(strong) + len(weak), 80 if prog.config != "rel" else 79)


def pdom_breaker(ctx, prog):
    R = "C12.PDOM-breaker"
    ctx.rule(R, "the Var<->watch-node cycle is broken on every teardown path; observers leave all_observers; "
                "ExpertNode::drop and State::drop release what they hold")
    D = ctx.need_fn(R, "<incremental::public::Var<T> as core::ops::drop::Drop>::drop")
    if D is not None:
        du = DefUse(D)
        c = D.cfg()
        sw = None
        for b in D.blocks:
            t = b["term"]
            if t["k"] == "switch":
                e = expr(D, t["on"], du)
                if e[0] == "bin" and mentions(e, lambda x: x[0] == "call" and x[1].endswith("Rc::strong_count") and
                                              mentions(x, lambda y: y[0] == "field" and y[2][-1] == "sentinel")):
                    sw = (b["id"], e)
        pushes = {o.bb for o in coll_ops(prog, D) if o.sign == "+" and any(f.endswith("State.dead_vars") for f in o.fields)}
        breaks = {t.bb for t in q.calls_in(D, "ErasedVariable>::break_rc_cycle", "ErasedVariable::break_rc_cycle", "break_rc_cycle")}
        ctx.site(R, D, "sentinel test %s; dead_vars push %s; break_rc_cycle %s" % (show(sw[1]) if sw else None,
                                                                                  sorted(pushes), sorted(breaks)))
        if sw is None or not (pushes | breaks):
            ctx.fail(R, "var-drop", "Var::drop no longer hands the var to the cycle breaker", fn=D)
        else:
            sb, e = sw
            last = (e[1] == "Le" and e[3] == ("const", 1)) or (e[1] == "Lt" and e[3] == ("const", 2)) or \
                   (e[1] == "Eq" and e[3] == ("const", 1))
            true_t = [x for x in c.succ[sb] if 0 not in c.edge_values(sb, x)]
            p = c.path(true_t, c.exits, avoid=pushes | breaks)
            if last and p is None:
                ctx.ok(R, "var-drop")
            else:
                ctx.fail(R, "var-drop", "when the last public Var is dropped a path neither queues the var on dead_vars "
                         "nor breaks the Var<->node cycle: the watch node and the var leak", fn=D,
                         path=q.fmt_path(D, p) if p else None)
    B = ctx.need_fn(R, q.VAR_IMPL + "break_rc_cycle")
    if B is not None:
        ts = [a for a in writes_of(prog, "incremental::var::Var.node") if a.fn.path == B.path and a.kind in ("take", "replace")]
        ctx.site(R, B, "Var.node writes %s" % [(a.bb, a.kind) for a in ts])
        if ts and B.cfg().path([0], B.cfg().exits, avoid={a.bb for a in ts}) is None:
            ctx.ok(R, "break_rc_cycle")
        else:
            ctx.fail(R, "break_rc_cycle", "break_rc_cycle does not clear Var.node", fn=B)
    # drains
    SE = ctx.need_fn(R, q.STATE + "stabilise_end")
    if SE is not None:
        good = False
        for G in prog.with_closures(SE):
            br = q.calls_in(G, "break_rc_cycle")
            if not br:
                continue
            du = DefUse(G)
            c = G.cfg()
            ls = elem_loops(G, du)
            inner = [l for l in ls if br[0].bb in l.body]
            ctx.site(R, G, "break_rc_cycle bb%d in loops %s" % (br[0].bb, inner))
            if not inner:
                continue
            p = uncovered_iteration(G, inner[0], {t.bb for t in br}, {"Weak::upgrade": 0}, du)
            # the outer loop exits only when dead_vars is empty
            outer_exit_ok = False
            for b in G.blocks:
                t = b["term"]
                if t["k"] == "switch":
                    e = expr(G, t["on"], du)
                    if e[0] == "call" and e[1].endswith("is_empty") and mentions(
                            e, lambda x: x[0] == "field" and x[2][-1] == "dead_vars"):
                        outer_exit_ok = True
            if p is None and outer_exit_ok:
                good = True
        if good:
            ctx.ok(R, "drain:stabilise_end")
        else:
            ctx.fail(R, "drain:stabilise_end", "stabilise_end does not break the cycle of every dead var (or its loop no "
                     "longer runs until dead_vars is empty)", fn=SE)
    DS = ctx.need_fn(R, q.STATE + "destroy")
    if DS is not None:
        du = DefUse(DS)
        c = DS.cfg()
        br = q.calls_in(DS, "break_rc_cycle")
        takes = [a for a in accesses_of(prog, "incremental::state::State.dead_vars") if a.fn.path == DS.path]
        ls = elem_loops(DS, du)
        inner = [l for l in ls if br and br[0].bb in l.body]
        ctx.site(R, DS, "dead_vars access %s, break_rc_cycle %s" % ([(a.bb, a.kind) for a in takes], [t.bb for t in br]))
        if br and takes and inner and uncovered_iteration(DS, inner[0], {t.bb for t in br}, {"Weak::upgrade": 0}, du) is None \
                and c.path([0], c.exits, avoid={inner[0].header}) is None:
            ctx.ok(R, "drain:destroy")
        else:
            ctx.fail(R, "drain:destroy", "State::destroy does not break the cycle of the dead vars it still holds", fn=DS)
        # observers / heaps cleared
        need = {"all_observers": False, "recompute_heap": False}
        for a in accesses_of(prog, "incremental::state::State.all_observers"):
            if a.fn.path == DS.path and a.kind in ("take", "borrow_mut", "replace"):
                need["all_observers"] = True
        if q.calls_in(DS, "RecomputeHeap::clear"):
            need["recompute_heap"] = True
        ul = q.calls_in(DS, "State::unlink_disallowed_observers")
        dis = q.calls_in(DS, "ErasedObserver::disallow_future_use")
        if all(need.values()) and ul and dis:
            ctx.ok(R, "destroy:observers")
        else:
            ctx.fail(R, "destroy:observers", "State::destroy no longer releases observers / the recompute heap (%s, "
                     "unlink %d, disallow %d)" % (need, len(ul), len(dis)), fn=DS)
    SD = ctx.need_fn(R, "<incremental::state::State as core::ops::drop::Drop>::drop")
    if SD is not None:
        cs = q.calls_in(SD, "State::destroy")
        ctx.site(R, SD, "calls destroy: %d" % len(cs))
        if cs and SD.cfg().path([0], SD.cfg().exits, avoid={t.bb for t in cs}) is None:
            ctx.ok(R, "state-drop")
        else:
            ctx.fail(R, "state-drop", "dropping the State does not run destroy", fn=SD)
    UL = ctx.need_fn(R, q.STATE + "unlink_disallowed_observers")
    if UL is not None:
        rem = [o for o in coll_ops(prog, UL) if o.sign == "-" and any(f.endswith("State.all_observers") for f in o.fields)]
        ls = elem_loops(UL)
        ctx.site(R, UL, "all_observers removals %s" % [o.bb for o in rem])
        if rem and ls and uncovered_iteration(UL, ls[0], {o.bb for o in rem}, {"Weak::upgrade": 0}) is None:
            ctx.ok(R, "unlink:all_observers")
        else:
            ctx.fail(R, "unlink:all_observers", "an unlinked observer stays in all_observers (it and the graph under it "
                     "are never released)", fn=UL)
    ED = ctx.need_fn(R, "<incremental::kind::expert::ExpertNode as core::ops::drop::Drop>::drop")
    if ED is not None:
        got = set()
        for fld in ("children", "recompute", "on_observability_change"):
            for a in writes_of(prog, "incremental::kind::expert::ExpertNode." + fld):
                if a.fn.path == ED.path and a.kind in ("take", "replace"):
                    got.add(fld)
        ctx.site(R, ED, "takes %s" % sorted(got))
        if got == {"children", "recompute", "on_observability_change"}:
            ctx.ok(R, "expert-drop")
        else:
            ctx.fail(R, "expert-drop", "ExpertNode::drop releases only %s" % sorted(got), fn=ED)
    # weak maps: garbage collected at stabilise end (closes C20's storage)
    if SE is not None:
        gc = []
        for G in prog.with_closures(SE):
            gc += q.calls_in(G, "WeakMap::garbage_collect")
        if gc:
            ctx.ok(R, "weak-maps:gc")
        else:
            ctx.fail(R, "weak-maps:gc", "stabilise_end no longer sweeps the registered weak maps", fn=SE)


def unlink_queued(ctx, prog):
    # an in-use observer is held by State.all_observers until unlink_disallowed_observers removes it, and that only
    # visits queued observers: disallowing an InUse observer must always queue it (table shared with C09)
    from .c09 import sign_unsub
    from .engine import run_relabelled
    run_relabelled(ctx, prog, sign_unsub, "C09.SIGN-unsub", "C12.SIGN-unlink-queued")


for _f, _id in ((tyg_strong, "C12.TYG-strong"), (pdom_breaker, "C12.PDOM-breaker"), (unlink_queued, "C12.SIGN-unlink-queued")):
    _f.rule_id = _id

OWNING_STATE = ("alloc::rc::Rc<incremental::state::State", "incremental::public::IncrState")


def tyg_captures(ctx, prog):
    """Closures are objects too: a closure that is handed to the user or stored in a node and owns the State
    (captures an Rc<State> / IncrState by value) makes the State own itself through all_observers -> node ->
    closure. No closure of the analysed crates may own the State; borrowing it (`&State`) or holding a WeakState
    is fine."""
    R = "C12.TYG-captures"
    ctx.rule(R, "no closure captures an owning handle of the State (Rc<State>, IncrState) by value; WeakState and "
                "borrows are allowed")
    n = 0
    for F in prog.fns.values():
        if not F.is_closure:
            continue
        for c in F.j.get("captures") or []:
            n += 1
            ty = c.get("ty", "")
            if c.get("by_ref") or ty.startswith("&"):
                continue
            if any(o in ty for o in OWNING_STATE):
                ctx.site(R, F, "captures %s: %s" % (c.get("name"), ty))
                ctx.fail(R, "capture:%s:%s" % (F.short, c.get("name")), "closure %s captures `%s: %s` by value: if the "
                         "closure ends up in a node (or is kept by the user inside one) the State owns itself and is "
                         "never destroyed" % (F.short, c.get("name"), ty), fn=F)
    ctx.site(R, "closures", "%d captures inspected" % n)
    ctx.ok(R, "no-owning-capture")
    ctx.floor(R, n, 150)


tyg_captures.rule_id = "C12.TYG-captures"

def guard_sentinel(ctx, prog):
    """The last handle of an observer always disallows it (handle count = sentinel count, not strong references to the
    internal observer): otherwise the observer stays in all_observers for ever and its cone is never released. Same
    rule as C10.GUARD-sentinel."""
    from .engine import run_relabelled
    from .c10 import guard_sentinel as f
    run_relabelled(ctx, prog, f, "C10.GUARD-sentinel", "C12.GUARD-sentinel")


guard_sentinel.rule_id = "C12.GUARD-sentinel"

def data_remove_parent(ctx, prog):
    """Dropping handles in any order must not disturb the remaining graph: the swap-remove bookkeeping of
    remove_parent (C11.DATA-remove-parent) keeps the surviving parent's indices right."""
    from .c11 import data_remove_parent as f
    f(ctx, prog, "C12.DATA-remove-parent")


data_remove_parent.rule_id = "C12.DATA-remove-parent"

def data_preserve_cutoff(ctx, prog):
    """The cutoff closure installed by depend_on lives in the output node: it must hold that node weakly (a strong
    Incr makes the node own itself and leaks everything upstream). Same rule as C06.DATA-preserve-cutoff."""
    from .c06 import preserve_cutoff as f
    f(ctx, prog, "C12.DATA-preserve-cutoff")


data_preserve_cutoff.rule_id = "C12.DATA-preserve-cutoff"

RULES = [tyg_strong, pdom_breaker, unlink_queued, tyg_captures, guard_sentinel, data_remove_parent, data_preserve_cutoff]

# control signature of the bookkeeping effects this property depends on (rules/ctrlsig.py)
from .ctrlsig import make_rule as _ctrl_rule  # noqa: E402
RULES.append(_ctrl_rule("C12"))
