use incremental::*;
use incremental::expert::*;
use std::cell::RefCell;
use std::rc::Rc;

#[test]
fn d9_duplicate_dep_remove() {
    let st = IncrState::new();
    let ws = st.weak();
    let trigger = st.var(0i32);
    let c = st.var(7i32);
    let node = Node::<i32>::new(&ws, move || 1);
    let wn = node.weak();
    let d1c: Rc<RefCell<Option<Dependency<i32>>>> = Rc::new(RefCell::new(None));
    let d1c2 = d1c.clone();
    let remover = trigger.map(move |&t| {
        if t == 1 {
            if let Some(d) = d1c2.borrow_mut().take() { wn.remove_dependency(d); }
        }
        t
    });
    node.add_dependency(&remover);
    let d1 = node.add_dependency(&c.watch());
    let _d2 = node.add_dependency(&c.watch());
    *d1c.borrow_mut() = Some(d1);
    let o = node.watch().observe();
    st.stabilise();
    trigger.set(1);
    st.stabilise();
    assert_eq!(o.value(), 1);
}
