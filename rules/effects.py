"""Field access extraction: which Cell/RefCell/plain fields a function reads or writes, resolved
through reference temporaries and local getter functions (fn(&self) -> &self.field)."""
from collections import defaultdict

from .cfg import DefUse, origins
from .facts import Place, op_place, op_const_int, strip_generics

# method (generics stripped) -> (kind, is_write)
CELL_METHODS = {
    "core::cell::Cell::set": ("set", True),
    "core::cell::Cell::replace": ("replace", True),
    "core::cell::Cell::take": ("take", True),
    "core::cell::Cell::swap": ("swap", True),
    "core::cell::Cell::get": ("get", False),
    "core::cell::Cell::update": ("update", True),
    "core::cell::RefCell::borrow_mut": ("borrow_mut", True),
    "core::cell::RefCell::try_borrow_mut": ("borrow_mut", True),
    "core::cell::RefCell::replace": ("replace", True),
    "core::cell::RefCell::replace_with": ("replace", True),
    "core::cell::RefCell::take": ("take", True),
    "core::cell::RefCell::swap": ("swap", True),
    "core::cell::RefCell::borrow": ("borrow", False),
    "core::cell::RefCell::try_borrow": ("borrow", False),
    "core::cell::RefCell::get_mut": ("borrow_mut", True),
    "<core::cell::Cell<i32> as incremental::CellIncrement>::increment": ("increment", True),
    "<core::cell::Cell<i32> as incremental::CellIncrement>::decrement": ("decrement", True),
    "<core::cell::Cell<usize> as incremental::CellIncrement>::increment": ("increment", True),
    "<core::cell::Cell<usize> as incremental::CellIncrement>::decrement": ("decrement", True),
    "<core::cell::Cell<i32> as incremental::CellIncrement>::update_val": ("update", True),
    "<core::cell::Cell<usize> as incremental::CellIncrement>::update_val": ("update", True),
    "incremental::CellIncrement::increment": ("increment", True),
    "incremental::CellIncrement::decrement": ("decrement", True),
    "incremental::CellIncrement::update_val": ("update", True),
}


def getter_field(prog, F):
    """If F is `fn(&self, ..) -> &self.<field>` return the full field name, else None."""
    cache = prog.__dict__.setdefault("_getter_cache", {})
    if F.path in cache:
        return cache[F.path]
    res = None
    if F.arg_count >= 1 and not F.is_closure and len(F.blocks) <= 4:
        os_ = origins(F, 0)
        fields = set()
        okay = bool(os_)
        for o in os_:
            if o.kind == "arg" and o.what == 1 and _last_local(o.fields):
                fields.add(_last_local(o.fields))
            else:
                okay = False
        if okay and len(fields) == 1 and not any(True for _ in F.calls()):
            res = fields.pop()
    cache[F.path] = res
    return res


def identity_fn(prog, F):
    """fn(&self) -> &Self style identity (e.g. Node::erased, as_parent_dyn_ref)."""
    cache = prog.__dict__.setdefault("_ident_cache", {})
    if F.path in cache:
        return cache[F.path]
    res = False
    if F.arg_count == 1 and not F.is_closure and len(F.blocks) <= 2 and not any(True for _ in F.calls()):
        os_ = origins(F, 0)
        res = bool(os_) and all(o.kind == "arg" and o.what == 1 and not o.fields for o in os_)
    cache[F.path] = res
    return res


def resolve_fields(prog, fn, place, du=None, depth=0):
    """Set of full field names ('adt.field') a reference operand may point into. Empty set when the
    reference does not derive from a field (local temporaries, unknown calls)."""
    du = du or DefUse(fn)
    out = set()
    if isinstance(place, Place) and place.proj and _last_local(place.fields()):
        out.add(_last_local(place.fields()))
        return out
    for o in origins(fn, place, du):
        lf = _last_local(o.fields)
        if lf:
            out.add(lf)
        elif o.kind == "call" and o.site is not None and depth < 3:
            for T in prog.call_targets(o.site):
                g = getter_field(prog, T)
                if g:
                    out.add(g)
    return out


def _last_local(fields):
    """Last field projection that belongs to an ADT of the analysed crates (skips Option/tuple...)."""
    for f in reversed(list(fields)):
        if f.startswith("incremental"):
            return f
    return None


class Access:
    __slots__ = ("fn", "bb", "field", "kind", "write", "site", "value")

    def __init__(self, fn, bb, field, kind, write, site, value=None):
        self.fn, self.bb, self.field, self.kind, self.write, self.site = fn, bb, field, kind, write, site
        self.value = value

    @property
    def span(self):
        return self.site.span

    def __repr__(self):
        return "%s bb%d %s %s @%s" % (self.fn.short, self.bb, self.kind, self.field, self.span)


def _is_expansion_of(site, names):
    return any(any(n in m for n in names) for m in site.macros)


def accesses(prog):
    """All field accesses of the program through the cell API, direct assignment or &mut borrow."""
    if "_accesses" in prog.__dict__:
        return prog.__dict__["_accesses"]
    out = []
    for F in prog.fns.values():
        du = None
        for t in F.calls():
            c = t.callee
            if not c:
                continue
            m = CELL_METHODS.get(strip_generics(c))
            if not m:
                continue
            p = t.arg_place(0)
            if p is None:
                continue
            du = du or DefUse(F)
            for f in resolve_fields(prog, F, p, du):
                out.append(Access(F, t.bb, f, m[0], m[1], t))
        for s in F.stmts():
            if s.dst is not None and _last_local(s.dst.fields()):
                out.append(Access(F, s.bb, _last_local(s.dst.fields()), "assign", True, s, s.rv))
            rv = s.rv
            if rv and "ref" in rv and rv.get("mut"):
                p = Place(rv["ref"])
                if _last_local(p.fields()):
                    out.append(Access(F, s.bb, _last_local(p.fields()), "ref_mut", True, s))
    prog.__dict__["_accesses"] = out
    return out


def writes_of(prog, field_suffix):
    return [a for a in accesses(prog) if a.write and (a.field == field_suffix or a.field.endswith(field_suffix))]


def accesses_of(prog, field_suffix):
    return [a for a in accesses(prog) if (a.field == field_suffix or a.field.endswith(field_suffix))]


# ------------------------------------------------------------------ counter effect signs

def _sign_of_value(fn, operand, du, field=None, depth=0):
    """Sign of the update `x = <operand>` relative to the old value: '+', '-', '0', 'const:<n>', '?'."""
    ci = op_const_int(operand)
    if ci is not None:
        return "const:%d" % ci
    p = op_place(operand)
    if p is None or depth > 6:
        return "?"
    # tuple.0 of a checked op
    d = du.single_def(p.local)
    if d is None:
        return "?"
    kind, site = d
    if kind != "assign" or site.rv is None:
        return "?"
    rv = site.rv
    if "bin" in rv:
        op = rv["bin"][0]
        a, b = rv["bin"][1], rv["bin"][2]
        if op in ("Add", "AddWithOverflow", "AddUnchecked"):
            return "+"
        if op in ("Sub", "SubWithOverflow", "SubUnchecked"):
            return "-"
        return "?"
    if "use" in rv:
        return _sign_of_value(fn, rv["use"], du, field, depth + 1)
    if "cast" in rv:
        return _sign_of_value(fn, rv["cast"], du, field, depth + 1)
    return "?"


def counter_effects(prog, field_suffix):
    """Sites that change integer field `field_suffix`, with the direction of the change.
    Returns list of (Access, sign) where sign in '+', '-', 'const:<n>', '?'."""
    out = []
    for a in writes_of(prog, field_suffix):
        F = a.fn
        if a.kind == "increment":
            out.append((a, "+"))
        elif a.kind == "decrement":
            out.append((a, "-"))
        elif a.kind in ("set", "replace"):
            du = DefUse(F)
            v = a.site.args[1] if len(a.site.args) > 1 else None
            out.append((a, _sign_of_value(F, v, du) if v is not None else "?"))
        elif a.kind == "assign":
            du = DefUse(F)
            rv = a.value or {}
            if "use" in rv:
                out.append((a, _sign_of_value(F, rv["use"], du)))
            elif "bin" in rv:
                op = rv["bin"][0]
                out.append((a, "+" if op.startswith("Add") else "-" if op.startswith("Sub") else "?"))
            else:
                out.append((a, "?"))
        elif a.kind == "update":
            out.append((a, "?"))
        else:
            out.append((a, "?"))
    return out
