"""Whole-program call graph over the local crates with closure and dyn-dispatch approximation."""
from collections import defaultdict, deque

from .effects import accesses
from .facts import op_const


def edges(prog):
    """fn path -> set of local fn paths it may enter. A closure created in f (or a fn item passed as
    a value in f) counts as called by f; dyn / unresolved trait calls expand to all local impls."""
    if "_cg_edges" in prog.__dict__:
        return prog.__dict__["_cg_edges"]
    E = defaultdict(set)
    for F in prog.fns.values():
        for t in F.calls():
            for T in prog.call_targets(t):
                E[F.path].add(T.path)
            # function items passed as arguments
            for a in t.args:
                c = op_const(a)
                if c is not None and "fn" in c:
                    G = prog.fn(c["fn"])
                    if G is not None:
                        E[F.path].add(G.path)
        for s in F.stmts():
            rv = s.rv or {}
            if "agg" in rv and isinstance(rv["agg"], dict) and "closure" in rv["agg"]:
                G = prog.fn(rv["agg"]["closure"])
                if G is not None:
                    E[F.path].add(G.path)
            if "use" in rv:
                c = op_const(rv["use"])
                if c is not None and "fn" in c:
                    G = prog.fn(c["fn"])
                    if G is not None:
                        E[F.path].add(G.path)
    # drop glue: dropping a value of a local ADT with a Drop impl enters that impl
    drop_impls = {}
    for F in prog.fns.values():
        if F.impl_trait == "core::ops::drop::Drop" and F.impl_self_adt:
            drop_impls[F.impl_self_adt] = F.path
    prog.__dict__["_drop_impls"] = drop_impls
    prog.__dict__["_cg_edges"] = E
    return E


def reachable(prog, roots, stop=frozenset()):
    E = edges(prog)
    seen = set()
    dq = deque(r for r in roots if r not in stop)
    seen.update(dq)
    while dq:
        a = dq.popleft()
        for b in E.get(a, ()):
            if b not in seen and b not in stop:
                seen.add(b)
                dq.append(b)
    return seen


def path_between(prog, roots, goals, stop=frozenset()):
    E = edges(prog)
    goals = set(goals)
    prev = {}
    dq = deque()
    for r in roots:
        prev[r] = None
        dq.append(r)
    while dq:
        a = dq.popleft()
        if a in goals:
            out = []
            while a is not None:
                out.append(a)
                a = prev[a]
            return out[::-1]
        for b in E.get(a, ()):
            if b not in prev and b not in stop:
                prev[b] = a
                dq.append(b)
    return None


def direct_writes(prog):
    """fn path -> set of fields written directly (cell API, assignment, &mut borrow)."""
    if "_direct_writes" in prog.__dict__:
        return prog.__dict__["_direct_writes"]
    W = defaultdict(set)
    for a in accesses(prog):
        if a.write:
            W[a.fn.path].add(a.field)
    prog.__dict__["_direct_writes"] = W
    return W


def write_summary(prog):
    """fn path -> set of fields written by the function or anything it may call."""
    if "_write_summary" in prog.__dict__:
        return prog.__dict__["_write_summary"]
    E = edges(prog)
    W = {p: set(s) for p, s in direct_writes(prog).items()}
    for p in prog.fns:
        W.setdefault(p, set())
    changed = True
    while changed:
        changed = False
        for p in prog.fns:
            cur = W[p]
            n0 = len(cur)
            for c in E.get(p, ()):
                cur |= W.get(c, set())
            if len(cur) != n0:
                changed = True
    prog.__dict__["_write_summary"] = W
    return W
