"""C20 — weak_memoize_fn (structural clauses)."""
from . import q, dtab
from .cfg import DefUse
from .expr import expr, show, mentions, walk, closure_paths
from .usercalls import user_calls

EXPLANATION = (
    "Decided clause of C20: (WMC-scope) the memoised user function is called only inside the closure handed to "
    "within_scope, whose scope argument is the closure's captured `creation_scope`, initialised in "
    "weak_memoize_fn's own body from current_scope() (so nodes it creates belong to the scope of the "
    "weak_memoize_fn call, not of the caller); (GUARD-lookup) extracted as a decision table over (contains_key, "
    "upgrade): a live entry is returned without calling the function, a miss or a dead entry calls it once and "
    "stores a weak reference under the key; (TYG-weak) the table stores WeakIncr values, is registered with "
    "add_weak_map before the closure is built, stabilise_end sweeps every registered map, and garbage_collect "
    "retains exactly the entries with strong_count != 0.")
NOT_DECIDED = "Identity of the returned nodes over call histories; when exactly the function is re-invoked."
ASSUMPTIONS = ["HashMap::retain keeps the entries for which the predicate is true"]

WM = "incremental::public::IncrState::weak_memoize_fn"


def wmc_scope(ctx, prog):
    R = "C20.WMC-scope"
    ctx.rule(R, "f is called only inside within_scope(creation_scope, ..); creation_scope := current_scope() in "
                "weak_memoize_fn itself")
    F = ctx.need_fn(R, WM)
    C = ctx.need_fn(R, WM + "::{closure#0}")
    if F is None or C is None:
        return
    du, cdu = DefUse(F), DefUse(C)
    # user calls of `f` inside the returned closure tree
    ucs = [u for u in user_calls(prog) if u.site.fn.root == WM]
    ws = q.calls_in(C, "IncrState::within_scope", "State::within_scope", "WeakState::within_scope")
    ctx.site(R, C, "within_scope %s; user calls in %s" % ([t.bb for t in ws], [u.site.fn.short for u in ucs]))
    if not ucs or len(ws) != 1:
        ctx.fail(R, "shape", "expected one within_scope call and the call of the memoised function inside the returned "
                 "closure", fn=C, kind="anchor")
        return
    w = ws[0]
    inner = closure_paths(expr(C, w.args[2], cdu))
    bad = [u for u in ucs if u.site.fn.path not in inner and not any(u.site.fn.path.startswith(i) for i in inner)]
    if bad:
        ctx.fail(R, "inside-scope", "the memoised function is called outside within_scope: nodes it creates are "
                 "attributed to the caller's scope and are invalidated when that bind re-runs", fn=bad[0].site.fn,
                 span=bad[0].site.span)
    else:
        ctx.ok(R, "inside-scope")
    se = expr(C, w.args[1], cdu)
    cap = [x for x in walk(se) if x[0] == "field" and x[1] == ("arg", 1)]
    names = [f for x in cap for f in x[2]]
    is_captured_scope = any("creation_scope" in f or f.startswith("upvar#") for f in names) and \
        not mentions(se, lambda x: x[0] == "call" and x[1].endswith("current_scope"))
    # which upvar index, and what initialises it in the parent
    idx = None
    for f in names:
        if f.startswith("upvar#"):
            idx = int(f.split("#")[1].split(":")[0])
    init = None
    for s in F.stmts():
        rv = s.rv or {}
        if "agg" in rv and isinstance(rv["agg"], dict) and rv["agg"].get("closure") == C.path and idx is not None:
            init = expr(F, rv["ops"][idx], du)
    ctx.site(R, F, "scope argument %s; captured #%s := %s" % (show(se), idx, show(init) if init else None))
    if is_captured_scope and init is not None and init[0] == "call" and init[1].endswith("current_scope") and \
            mentions(init, lambda x: x == ("arg", 1)):
        ctx.ok(R, "creation-scope")
    else:
        ctx.fail(R, "creation-scope", "the scope given to within_scope is %s (captured := %s); it must be the scope "
                 "current when weak_memoize_fn was called" % (show(se), show(init) if init else "?"), fn=C, span=w.span)
    # within_scope itself brackets f with the scope swap
    WS = ctx.need_fn(R, q.STATE + "within_scope")
    if WS is not None:
        wdu = DefUse(WS)
        c = WS.cfg()
        reps = [t for t in WS.calls() if q.callee_is(t, "RefCell::replace")]
        uc = [u for u in user_calls(prog) if u.site.fn.path == WS.path]
        ctx.site(R, WS, "scope swaps %s user call %s" % ([t.bb for t in reps], [u.site.bb for u in uc]))
        good = False
        if len(reps) == 2 and len(uc) == 1:
            a, b = sorted(reps, key=lambda t: t.bb)
            first = a if c.dominates(a.bb, uc[0].site.bb) else b
            second = b if first is a else a
            e1 = expr(WS, first.args[1], wdu)
            e2 = expr(WS, second.args[1], wdu)
            good = c.dominates(first.bb, uc[0].site.bb) and c.postdominates(second.bb, uc[0].site.bb) and \
                e1 == ("arg", 2) and e2[0] == "call" and e2[1].endswith("RefCell::replace")
        if good:
            ctx.ok(R, "within_scope:bracket")
        else:
            ctx.fail(R, "within_scope:bracket", "within_scope does not install the given scope before f and restore "
                     "the previous one after it", fn=WS)


def guard_lookup(ctx, prog):
    R = "C20.GUARD-lookup"
    ctx.rule(R, "(contains_key, upgrade) -> hit returns the live node without calling f; miss / dead entry calls f "
                "once inside within_scope and inserts a weak reference under the key")
    C = ctx.need_fn(R, WM + "::{closure#0}")
    if C is None:
        return
    syms = [dtab.Sym("contains", lambda e: e[0] == "call" and e[1].endswith("HashMap::contains_key"),
                     {0: "absent", 1: "present"}, "bool"),
            dtab.Sym("upgrade", lambda e: e[0] == "call" and e[1].endswith("WeakIncr::upgrade"), {0: "dead", 1: "live"})]
    du = DefUse(C)

    def d_ins(F_, t, du_):
        k = show(expr(F_, t.args[1], du_))
        v = expr(F_, t.args[2], du_)
        weak = v[0] == "call" and v[1].endswith("Incr::weak") and mentions(v, lambda x: x[0] == "call" and x[1].endswith("within_scope"))
        return "%s,%s" % (k, "weak(result)" if weak else show(v)[:40])
    acts = [dtab.Action("compute", lambda t: q.callee_is(t, "IncrState::within_scope", "State::within_scope")),
            dtab.Action("insert", lambda t: q.callee_is(t, "HashMap::insert"), d_ins)]
    tb = dtab.table(C, syms, acts, path_sensitive=True)
    for (ck, up), res in sorted(tb.items()):
        got = dtab.summarize(res)
        ctx.site(R, C, "(%s,%s) -> %s" % (ck, up, got))
        if ck == "present" and up == "live":
            good = len(got) == 1 and "compute" not in got[0] and "insert" not in got[0] and "upgrade(" in got[0]
            why = "a live entry must be returned as is"
        else:
            good = len(got) == 1 and got[0].startswith("compute ; insert(arg2,weak(result))") and "within_scope" in got[0]
            why = "the function must be called once, its result stored weakly under the key and returned"
        if good:
            ctx.ok(R, "cell:%s/%s" % (ck, up))
        else:
            ctx.fail(R, "cell:%s/%s" % (ck, up), "weak_memoize_fn closure with entry (%s,%s) does %s; %s" % (ck, up, got, why), fn=C)
    # the storage borrow is released before f runs (f may be recursive)
    borrows = [t for t in C.calls() if q.callee_is(t, "RefCell::borrow")]
    ws = q.calls_in(C, "IncrState::within_scope", "State::within_scope")
    if borrows and ws:
        from .guards import Guard
        g = Guard(C, borrows[0], "storage", False, "upvar")
        if ws[0].bb in g.live_blocks():
            ctx.fail(R, "borrow-released", "the storage is still borrowed while the memoised function runs", fn=C, span=ws[0].span)
        else:
            ctx.ok(R, "borrow-released")


def tyg_weak(ctx, prog):
    R = "C20.TYG-weak"
    ctx.rule(R, "WeakHashMap values are WeakIncr; the storage is registered (add_weak_map) before the closure is "
                "built; stabilise_end sweeps every registered map; garbage_collect retains strong_count != 0")
    al = prog.aliases.get("incremental::public::WeakHashMap")
    if al is None:
        ctx.missing(R, "type alias WeakHashMap")
    else:
        args = [a for a in al["tree"].get("args", [])]
        ctx.site(R, "WeakHashMap", al["ty"])
        if len(args) >= 2 and args[1].get("path") == "incremental::incr::WeakIncr":
            ctx.ok(R, "alias")
        else:
            ctx.fail(R, "alias", "WeakHashMap stores %s: memoised nodes are kept alive forever" % al["ty"], span=None)
    wi = prog.adts.get("incremental::incr::WeakIncr")
    if wi is not None:
        t = wi["variants"][0]["fields"][0]["tree"]
        if t.get("path") == "alloc::rc::Weak":
            ctx.ok(R, "WeakIncr")
        else:
            ctx.fail(R, "WeakIncr", "WeakIncr is no longer a Weak pointer", span=wi.get("span"))
    F = ctx.need_fn(R, WM)
    if F is not None:
        du = DefUse(F)
        c = F.cfg()
        adds = q.calls_in(F, "IncrState::add_weak_map", "State::add_weak_map")
        clos = [s for s in F.stmts() if s.rv and "agg" in s.rv and isinstance(s.rv["agg"], dict) and "closure" in s.rv["agg"]]
        ctx.site(R, F, "add_weak_map %s closure built %s" % ([t.bb for t in adds], [s.bb for s in clos]))
        good = False
        if adds and clos:
            ea = expr(F, adds[0].args[1], du)
            ec = expr(F, clos[0].rv["ops"][0], du)
            same = ea == ec or (ea[0] == "call" and ec[0] == "call" and ea[1] == ec[1])
            good = c.dominates(adds[0].bb, clos[0].bb) and same
        if good:
            ctx.ok(R, "registered")
        else:
            ctx.fail(R, "registered", "the memo table is not registered with the state before use: dead entries are "
                     "never swept and `the next call invokes the function again` only by luck", fn=F)
    AW = ctx.need_fn(R, q.STATE + "add_weak_map")
    if AW is not None:
        from .colls import coll_ops
        ops = [o for o in coll_ops(prog, AW) if o.sign == "+" and any(f.endswith("State.weak_maps") for f in o.fields)]
        if ops:
            ctx.ok(R, "add_weak_map")
        else:
            ctx.fail(R, "add_weak_map", "add_weak_map does not store the map", fn=AW)
    SE = ctx.need_fn(R, q.STATE + "stabilise_end")
    if SE is not None:
        from .loops import elem_loops, uncovered_iteration
        gcs = q.calls_in(SE, "WeakMap::garbage_collect")
        ls = [l for l in elem_loops(SE) if gcs and gcs[0].bb in l.body]
        ctx.site(R, SE, "garbage_collect %s in loop %s" % ([t.bb for t in gcs], ls))
        good = False
        if gcs and ls:
            from .cfg import origins
            from .effects import _last_local
            srcs = origins(SE, ls[0].advance_call.arg_place(0), DefUse(SE))
            over = any((_last_local(o.fields) or "").endswith("State.weak_maps") for o in srcs)
            good = over and uncovered_iteration(SE, ls[0], {t.bb for t in gcs}, {}) is None and \
                SE.cfg().path([0], SE.cfg().exits, avoid={ls[0].header}) is None
        if good:
            ctx.ok(R, "sweep")
        else:
            ctx.fail(R, "sweep", "stabilise_end does not call garbage_collect on every registered weak map", fn=SE)
    n = 0
    for G in prog.find(r"as incremental::public::WeakMap>::garbage_collect::\{closure#0\}$"):
        n += 1
        e = None
        for s in G.stmts():
            if s.dst is not None and s.dst.is_local() and s.dst.local == 0:
                e = expr(G, s.dst, DefUse(G))
        ctx.site(R, G, "retain predicate %s" % (show(e) if e else None))
        if e and e[0] == "bin" and e[1] == "Ne" and e[3] == ("const", 0) and mentions(
                e[2], lambda x: x[0] == "call" and x[1].endswith("strong_count")):
            ctx.ok(R, "gc:" + G.short)
        elif e and e[0] == "bin" and e[1] == "Gt" and e[3] == ("const", 0) and mentions(
                e[2], lambda x: x[0] == "call" and x[1].endswith("strong_count")):
            ctx.ok(R, "gc:" + G.short)
        else:
            ctx.fail(R, "gc:" + G.short, "garbage_collect retains entries by %s, expected strong_count() != 0"
                     % (show(e) if e else "?"), fn=G)
    ctx.floor(R, n, 1)


for _f, _id in ((wmc_scope, "C20.WMC-scope"), (guard_lookup, "C20.GUARD-lookup"), (tyg_weak, "C20.TYG-weak")):
    _f.rule_id = _id

def data_upgrade(ctx, prog, R="C20.DATA-upgrade"):
    ctx.rule(R, "a table entry is found as long as the node is referenced: WeakIncr::upgrade is the plain Weak upgrade "
                "(no filtering on validity or anything else)")
    from .cfg import DefUse as _DU
    from .expr import expr as _e, show as _s
    from .facts import Place as _P
    F = ctx.need_fn(R, "incremental::incr::WeakIncr::<T>::upgrade")
    if F is None:
        return
    du = _DU(F)
    ret = _e(F, _P({"local": 0, "proj": []}), du)
    calls = sorted({q.short_path(t.callee) for G in prog.with_closures(F) for t in G.calls()})
    ctx.site(R, F, "returns %s; calls %s" % (_s(ret)[:80], calls))
    okc = all(any(k in c for k in ("Weak<T, A>::upgrade", "Weak::upgrade", "Option<T>::map", "Option::map", "From", "from", "Incr")) for c in calls)
    has_up = any("upgrade" in c for c in calls)
    shape = (ret[0] == "call" and ret[1].endswith("Option::map")) or ret[0] in ("phi", "agg")   # `.map(Incr::from)` or a match
    if shape and okc and has_up:
        ctx.ok(R, "upgrade")
    else:
        ctx.fail(R, "upgrade", "WeakIncr::upgrade is no longer `self.0.upgrade().map(Incr::from)` (returns %s, calls %s): a "
                 "node that is still referenced can be reported as gone, so an equal key gets a second node"
                 % (_s(ret)[:80], calls), fn=F)


data_upgrade.rule_id = "C20.DATA-upgrade"

RULES = [wmc_scope, guard_lookup, tyg_weak, data_upgrade]

# control signature of the bookkeeping effects this property depends on (rules/ctrlsig.py)
from .ctrlsig import make_rule as _ctrl_rule  # noqa: E402
RULES.append(_ctrl_rule("C20"))
