"""C13 — a panic escaping stabilise poisons the state (structural clauses)."""
from . import q
from .callgraph import reachable, path_between, edges
from .cfg import DefUse
from .effects import writes_of
from .expr import expr, show, mentions

EXPLANATION = (
    "Decided clause of C13: (WMW-status) State.status is stored only in stabilise_start (Stabilising) and in "
    "stabilise_end (RunningOnUpdateHandlers, then NotStabilising as the last action before return); no store "
    "lies in an unwind/cleanup block, no function reachable from a Drop impl stores it, and the crates contain "
    "no catch_unwind / resume_unwind call (a positive control makes sure the detector would see one): nothing "
    "can reset the status after a panic; (DOM-assert) stabilise refuses to start unless status is "
    "NotStabilising; (GUARD-read, GUARD-value, shared with C07/C08) reads fail and var writes are parked while "
    "the status is Stabilising; (CFW) user code cannot name or write the status.")
NOT_DECIDED = "That tearing down handles and the state after a panic is itself panic-free on every history."
ASSUMPTIONS = ["panic = unwind; std::panic::catch_unwind and resume_unwind are the only ways to resume after a panic"]

F_STATUS = "incremental::state::State.status"


def wmw_status(ctx, prog):
    R = "C13.WMW-status"
    ctx.rule(R, "stores to State.status: Stabilising in stabilise_start; RunningOnUpdateHandlers and NotStabilising in "
                "stabilise_end (the latter post-dominated only by return); none in cleanup blocks; none reachable "
                "from Drop impls; no catch_unwind / resume_unwind")
    ws = writes_of(prog, F_STATUS)
    seen = {}
    for a in ws:
        F = a.fn
        e = expr(F, a.site.args[1], DefUse(F)) if a.kind == "set" and len(a.site.args) > 1 else ("?",)
        val = e[1].split("::")[1] if e[0] == "agg" and e[1].startswith("IncrStatus::") else show(e)
        ctx.site(R, F, "bb%d status := %s" % (a.bb, val))
        seen.setdefault(val, []).append(a)
        want_fn = {"Stabilising": q.STATE + "stabilise_start", "RunningOnUpdateHandlers": q.STATE + "stabilise_end",
                   "NotStabilising": q.STATE + "stabilise_end"}.get(val)
        if want_fn is None:
            ctx.fail(R, "store:" + F.short, "status is set to %s in %s" % (val, F.short), fn=F, span=a.span, kind="anchor")
        elif F.root != want_fn:
            ctx.fail(R, "store:%s:%s" % (val, F.short), "status := %s outside %s: a panic-poisoned state could be "
                     "revived" % (val, q.short_path(want_fn)), fn=F, span=a.span)
        else:
            ctx.ok(R, "store:%s" % val)
        if F.is_cleanup(a.bb):
            ctx.fail(R, "cleanup:" + F.short, "status is stored on an unwind path", fn=F, span=a.span)
    for v in ("Stabilising", "RunningOnUpdateHandlers", "NotStabilising"):
        if v not in seen:
            ctx.missing(R, "store of IncrStatus::" + v)
    ctx.floor(R, len(ws), 3)
    # any Cell<IncrStatus> store, however the cell is reached (e.g. through a guard struct holding `&Cell<IncrStatus>`)
    typed = []
    for F in prog.fns.values():
        if not F.crate.startswith("incremental"):
            continue
        for t in F.calls():
            if q.callee_is(t, "core::cell::Cell::set", "core::cell::Cell::replace", "core::cell::Cell::swap") and \
                    t.generics and t.generics[0] == "incremental::state::IncrStatus":
                typed.append(t)
    known_sites = {(a.fn.path, a.bb) for a in ws}
    for t in typed:
        ctx.site(R, t.fn, "bb%d Cell<IncrStatus> store" % t.bb)
        if (t.fn.path, t.bb) in known_sites:
            continue
        e = expr(t.fn, t.args[1], DefUse(t.fn)) if len(t.args) > 1 else ("?",)
        in_drop = t.fn.impl_trait == "core::ops::drop::Drop"
        ctx.fail(R, "typed-store:" + t.fn.short, "the engine status is stored (%s) through an alias of State.status in %s%s: "
                 "the status can be reset while a panic unwinds" % (show(e), t.fn.short, " (a Drop impl)" if in_drop else ""),
                 fn=t.fn, span=t.span)
    # NotStabilising is the last action of stabilise_end
    for a in seen.get("NotStabilising", []):
        F = a.fn
        if F.path != q.STATE + "stabilise_end":
            continue
        c = F.cfg()
        after = [t for t in F.calls() if t.bb in c.reach({a.bb}) and t.bb != a.bb and not q.is_tracing(t)]
        after = [t for t in after if not q.callee_is(t, "core::mem::drop", "drop_in_place")]
        if after:
            ctx.fail(R, "last", "stabilise_end does more work after resetting the status (%s): a panic there would "
                     "leave a state that looks healthy" % q.short_path(after[0].callee), fn=F, span=after[0].span)
        elif c.path([0], c.exits, avoid={a.bb}) is not None:
            ctx.fail(R, "last", "stabilise_end can return without resetting the status", fn=F)
        else:
            ctx.ok(R, "last")
    # Drop impls
    drops = [F.path for F in prog.fns.values() if F.impl_trait == "core::ops::drop::Drop"]
    writers = {a.fn.root for a in ws} | {a.fn.path for a in ws}
    for d in sorted(drops):
        ctx.site(R, d, "Drop impl")
        p = path_between(prog, [d], writers)
        if p is not None:
            ctx.fail(R, "drop:" + prog.fns[d].short, "a status store is reachable from %s (%s): a scope guard resets "
                     "the status during unwinding" % (prog.fns[d].short, " -> ".join(q.short_path(x) for x in p)),
                     fn=prog.fns[d])
        else:
            ctx.ok(R, "drop:" + prog.fns[d].short)
    if len(drops) < 4:
        ctx.missing(R, "Drop impls (expected at least State, Observer, Var, ExpertNode)")
    # catch_unwind / resume_unwind
    pat = r"panic::catch_unwind|panic::resume_unwind|panicking::r#?try|panicking::try\b"
    hits = prog.calls_to(pat)
    for t in hits:
        ctx.fail(R, "catch_unwind:" + t.fn.short, "%s is called in %s: execution continues after a panic inside "
                 "stabilise" % (q.short_path(t.callee), t.fn.short), fn=t.fn, span=t.span)
    if not hits:
        ctx.ok(R, "no-catch_unwind")
    # positive control: the same query must match the control snippet's facts
    from .controls import control_hits
    n = control_hits("catch_unwind", pat)
    ctx.site(R, "control::catch_unwind", "positive control matched %s call(s)" % n)
    if n and n > 0:
        ctx.ok(R, "control:catch_unwind")
    else:
        ctx.fail(R, "control:catch_unwind", "the positive control for the catch_unwind detector did not match: the "
                 "zero-site result above is not trustworthy", kind="crash")


def dom_assert(ctx, prog):
    from .c19 import dom_assert as da
    da(ctx, prog, "C13.DOM-assert")


def guard_read(ctx, prog):
    from .c07 import guard_read as g
    g(ctx, prog, "C13.GUARD-read")


def guard_value(ctx, prog):
    from .c08 import sib_writes
    # the decision table of the write operations (Stabilising arm parks the write)
    saved = ctx.rule_texts.get("C08.SIB-writes")
    _run_as(ctx, prog, sib_writes, "C08.SIB-writes", "C13.GUARD-parked")


def _run_as(ctx, prog, fn, old_id, new_id):
    """Run a rule of another property and re-label its obligations/findings under this property."""
    n_ob = len(ctx.obligations)
    before = set(ctx.findings)
    fn(ctx, prog)
    ctx.obligations[n_ob:] = [(new_id if o[0] == old_id else o[0],) + tuple(o[1:]) for o in ctx.obligations[n_ob:]]
    for k in list(ctx.findings):
        if k in before:
            continue
        f = ctx.findings.pop(k)
        if f.rule == old_id:
            f.rule = new_id
        ctx.findings[f.key()] = f
    if old_id in ctx.rule_texts:
        ctx.rule_texts[new_id] = ctx.rule_texts.pop(old_id)
    if old_id in ctx.rule_sites:
        ctx.rule_sites[new_id] = ctx.rule_sites.pop(old_id)


def cfw_status(ctx, prog):
    R = "C13.CFW-status"
    ctx.rule(R, "compile-fail witness: user code cannot name IncrStatus / write the status")
    from .witness import run_witnesses
    run_witnesses(ctx, R, ("status_private",))
    a = prog.adts.get("incremental::state::State")
    if a is None:
        ctx.missing(R, "State")
        return
    for f in a["variants"][0]["fields"]:
        if f["name"] == "status":
            ctx.site(R, "State.status", "visibility " + f["vis"])
            if f["vis"] == "pub":
                ctx.fail(R, "status-field", "State.status is public", span=a.get("span"))
            else:
                ctx.ok(R, "status-field")


cfw_status.configs = ("dbg",)

for _f, _id in ((wmw_status, "C13.WMW-status"), (dom_assert, "C13.DOM-assert"), (guard_read, "C13.GUARD-read"),
                (guard_value, "C13.GUARD-parked"), (cfw_status, "C13.CFW-status")):
    _f.rule_id = _id

def guard_destroy(ctx, prog):
    """Dropping a poisoned state must not panic again: deferred var writes are applied only by stabilise_end
    (State::destroy must not replay them on vars whose cycle it has just broken). Same rule as C08.GUARD-value."""
    from .engine import run_relabelled
    from .c08 import guard_value as f
    run_relabelled(ctx, prog, f, "C08.GUARD-value", "C13.GUARD-apply-site")


guard_destroy.rule_id = "C13.GUARD-apply-site"

def dom_status_first(ctx, prog):
    """The poisoned status covers the whole stabilise, including the linking / unlinking of observers (user callbacks
    run there too): the status store comes first (C07.DOM-status-first)."""
    from .c07 import dom_status_first as f
    f(ctx, prog, "C13.DOM-status-first")


dom_status_first.rule_id = "C13.DOM-status-first"

RULES = [wmw_status, dom_assert, guard_read, guard_value, cfw_status, guard_destroy, dom_status_first]

# control signature of the bookkeeping effects this property depends on (rules/ctrlsig.py)
from .ctrlsig import make_rule as _ctrl_rule  # noqa: E402
RULES.append(_ctrl_rule("C13"))
