"""Small symbolic expression builder over MIR single-assignment temporaries (no evaluation, no
solver): turns an operand into a tree such as ('bin','Add',('arg',2),('const',1))."""
from .cfg import DefUse, trait_method
from .facts import Place, op_place, op_const, strip_generics

_NORM = {"AddWithOverflow": "Add", "SubWithOverflow": "Sub", "MulWithOverflow": "Mul",
         "AddUnchecked": "Add", "SubUnchecked": "Sub"}

TRANSPARENT_CALLS = (
    "core::ops::deref::Deref::deref", "core::ops::deref::DerefMut::deref_mut",
    "core::clone::Clone::clone", "core::convert::Into::into", "core::convert::From::from",
    "core::borrow::Borrow::borrow",
)


def expr(F, x, du=None, depth=0, seen=None):
    du = du or DefUse(F)
    seen = seen or set()
    if isinstance(x, dict):
        c = op_const(x)
        if c is not None:
            if "int" in c:
                return ("const", c["int"])
            if "fn" in c:
                return ("fn", strip_generics(c["fn"]))
            if "promoted" in c:
                v = F.promoted_value(c["promoted"])
                if v is not None:
                    return v
            return ("const", c.get("text"))
        p = op_place(x)
    else:
        p = x
    if p is None:
        return ("?",)
    fields = tuple(f.rsplit(".", 1)[-1] for f in p.fields())
    full_fields = tuple(p.fields())
    local = p.local
    base = _local_expr(F, local, du, depth, seen)
    # checked arithmetic: (_t.0) of a `bin` is the value itself
    if fields and fields[0] in ("0",) and base[0] == "bin" and full_fields[0].startswith("tuple."):
        fields = fields[1:]
    if full_fields and full_fields[0].startswith("tuple.") and base[0] == "bin":
        return base if not fields else ("field", base, fields)
    # projection out of a tuple aggregate built in this body: select the component
    while fields and base[0] == "agg" and base[1] == "tuple" and fields[0].isdigit() and int(fields[0]) < len(base[2]):
        base = base[2][int(fields[0])]
        fields = fields[1:]
    # payload of an enum aggregate whose variant is known (Some(x).0 -> x)
    while fields and base[0] == "agg" and len(base) > 3 and base[3] is not None and fields[0].isdigit() and \
            int(fields[0]) < len(base[2]) and not str(base[1]).startswith("closure:"):
        base = base[2][int(fields[0])]
        fields = fields[1:]
    if fields:
        if base[0] == "field":
            return ("field", base[1], tuple(base[2]) + tuple(fields))
        return ("field", base, fields)
    return base


def _local_expr(F, local, du, depth, seen):
    if 1 <= local <= F.arg_count and not du.defs.get(local):
        return ("arg", local)
    if depth > 60 or local in seen:
        return ("local", local)
    ds = du.defs.get(local, [])
    if len(ds) != 1:
        if 1 <= local <= F.arg_count:
            return ("arg", local)
        if not ds:
            return ("undef", local)
        # several definitions: join of the alternatives
        alts = []
        for kind, site in ds[:4]:
            alts.append(_def_expr(F, kind, site, du, depth + 1, seen | {local}))
        return ("phi", tuple(alts))
    kind, site = ds[0]
    return _def_expr(F, kind, site, du, depth + 1, seen | {local})


def _def_expr(F, kind, site, du, depth, seen):
    if kind == "call":
        c = site.callee or site.j.get("callee_ty", "?")
        tm = trait_method(c)
        args = tuple(expr(F, a, du, depth + 1, seen) for a in site.args)
        if tm in TRANSPARENT_CALLS and args:
            return args[0]
        # `x?` on an Option whose variant is known on this path (an inlined helper returning Some(..)/None)
        if tm == "core::ops::try_trait::Try::branch" and args and args[0][0] == "agg" and len(args[0]) > 3:
            if args[0][1] == "Option::Some" and args[0][2]:
                return ("agg", "ControlFlow::Continue", (args[0][2][0],), 0)
            if args[0][1] == "Option::None":
                return ("agg", "ControlFlow::Break", (args[0],), 1)
        return ("call", strip_generics(c), args, site.bb)
    rv = site.rv or {}
    if "use" in rv:
        return expr(F, rv["use"], du, depth + 1, seen)
    if "ref" in rv:
        return expr(F, Place(rv["ref"]), du, depth + 1, seen)
    if "cast" in rv:
        return expr(F, rv["cast"], du, depth + 1, seen)
    if "bin" in rv:
        op = _NORM.get(rv["bin"][0], rv["bin"][0])
        return ("bin", op, expr(F, rv["bin"][1], du, depth + 1, seen), expr(F, rv["bin"][2], du, depth + 1, seen))
    if "un" in rv:
        return ("un", rv["un"][0], expr(F, rv["un"][1], du, depth + 1, seen))
    if "discr" in rv:
        return ("discr", expr(F, Place(rv["discr"]), du, depth + 1, seen))
    if "agg" in rv:
        a = rv["agg"]
        if isinstance(a, dict) and "closure" in a:
            name = "closure:" + a["closure"]
        else:
            name = a if not isinstance(a, dict) else (a.get("adt", "?").rsplit("::", 1)[-1]
                                                      + ("::" + a["variant"] if "variant" in a else ""))
        ops = tuple(expr(F, o, du, depth + 1, seen) for o in rv["ops"])
        if isinstance(a, dict) and a.get("is_enum"):
            return ("agg", name, ops, a.get("discr"))
        return ("agg", name, ops)
    return ("?",)


def show(e):
    k = e[0]
    if k == "arg":
        return "arg%d" % e[1]
    if k == "const":
        return str(e[1])
    if k == "bin":
        return "%s(%s, %s)" % (e[1], show(e[2]), show(e[3]))
    if k == "un":
        return "%s(%s)" % (e[1], show(e[2]))
    if k == "field":
        return show(e[1]) + "".join("." + f for f in e[2])
    if k == "call":
        return "%s(%s)" % (e[1].rsplit("::", 1)[-1], ", ".join(show(a) for a in e[2]))
    if k == "discr":
        return "discr(%s)" % show(e[1])
    if k == "agg":
        return "%s(%s)" % (e[1], ", ".join(show(a) for a in e[2]))
    if k == "phi":
        return "phi(%s)" % " | ".join(show(a) for a in e[1])
    if k == "fn":
        return "fn " + e[1].rsplit("::", 1)[-1]
    return "%s%s" % (k, "".join(str(x) for x in e[1:]))


def walk(e):
    yield e
    for x in e[1:]:
        if isinstance(x, tuple):
            if x and isinstance(x[0], str) and x[0] in ("arg", "const", "bin", "un", "field", "call", "discr",
                                                        "agg", "phi", "fn", "local", "undef", "?"):
                yield from walk(x)
            else:
                for y in x:
                    if isinstance(y, tuple):
                        yield from walk(y)


def mentions(e, pred):
    return any(pred(x) for x in walk(e))


def is_plus_one(e, base_pred):
    """e == base + 1 (either operand order) where base satisfies base_pred."""
    if e[0] == "bin" and e[1] == "Add":
        a, b = e[2], e[3]
        if b == ("const", 1) and base_pred(a):
            return True
        if a == ("const", 1) and base_pred(b):
            return True
    return False


def strip_field(e):
    return e[1] if e[0] == "field" else e


def closure_paths(e):
    """Paths of closures constructed inside expression e."""
    return [x[1][len("closure:"):] for x in walk(e) if x[0] == "agg" and isinstance(x[1], str)
            and x[1].startswith("closure:")]


def field_deps(prog, F, e, depth=0):
    """Names (last segment) of all fields the value of e may depend on, looking into the bodies of
    closures that e constructs (e.g. the closure given to Option::map_or)."""
    out = set()
    for x in walk(e):
        if x[0] == "field":
            out.update(x[2])
    if depth < 3:
        for cp in closure_paths(e):
            G = prog.fn(cp)
            if G is None:
                continue
            for H in prog.with_closures(G):
                for s in H.stmts():
                    for pl in ([s.dst] if s.dst is not None else []):
                        out.update(f.rsplit(".", 1)[-1] for f in pl.fields())
                    rv = s.rv or {}
                    for k in ("ref", "discr"):
                        if k in rv:
                            out.update(f.rsplit(".", 1)[-1] for f in Place(rv[k]).fields())
                    for k in ("use", "cast"):
                        if k in rv:
                            p = op_place(rv[k])
                            if p is not None:
                                out.update(f.rsplit(".", 1)[-1] for f in p.fields())
    return out
